"""C01 -- reported matching is a valid matching (DESIGN.md section 5, C01).

Decides: every solution of the problem handed to PuLP is a valid matching, for every configuration:
R1 var-domain, R2 validity schema, R3 must-precede-every-solve / single problem object, R4 grouping schema,
R5 read-back schema.  Not decided: that CBC returns integral values (A6)."""
from ..terms import *
from ..poly import *
from .. import lp, spec, lpfacts
from ..absint import Interp, iter_effects, collect_acc
from ..loader import AnalysisError

RULES = {
    'C01.R1': 'decision variables x (and project-closure variables) are declared Binary',
    'C01.R2': 'the constraint families added to the LP equal the 7 reference validity families (linear normal form)',
    'C01.R3': 'all validity families are added unconditionally before any solve, on the single problem object that is solved',
    'C01.R4': 'project/lecturer grouping = scatter of ALL pairs by their OWN project/lecturer index, sized by the agent count',
    'C01.R5': 'matching read back from the same variables: all pairs, selected by truthy varValue, written at the student index',
}

SPECIALISATIONS = [(pc, stab) for pc in (False, True) for stab in (False, True)]


def run(rep, repo, tier):
    for k, v in RULES.items():
        rep.rule(k, v)
    from ..defined import check_defined
    check_defined(rep, repo, 'C01.R3', [repo.method('Solver', '__init__'), repo.method('Solver', 'solve'), repo.method('Solver', 'get_results_short'), repo.method('Solver', 'get_results_long')], 'solver path')
    rep.assumptions += ['A1 well-formed instance', 'A3 PuLP semantics of LpVariable / += / solve', 'A6 CBC returns exact 0/1 values']
    crit_sets = [[], [lpfacts.crit_config('MAXSIZE')]]
    if tier == 'thorough':
        crit_sets += [[lpfacts.crit_config(n)] for n in spec.CRITERIA if n != 'MAXSIZE']
        crit_sets += [[lpfacts.crit_config('LOADSUMBAL'), lpfacts.crit_config('GENEROUS'), lpfacts.crit_config('MINCOST')]]
    for pc, stab in SPECIALISATIONS:
        for crit in crit_sets:
            r = lpfacts.get_run(repo, pc, stab, crit)
            check_run(rep, r, pc, stab, crit)
            lpfacts.check_domains_fixed(rep, r, 'C01.R1', '[pc=%s stab=%s]' % (pc, stab))
            rep.count('specialisations')
    check_grouping(rep, repo)
    check_readback(rep, repo)


def cfgname(pc, stab, crit):
    return 'pc=%s stab=%s criteria=[%s]' % (pc, stab, ','.join(c[0] for c in crit))


def check_run(rep, r, pc, stab, crit):
    cfg = cfgname(pc, stab, crit)
    first = r.first_solve()
    where_run = r.repo.method('LP_Solver', 'run').where
    if first is None:
        rep.fail('C01.R3', where_run, 'a solve is reached [%s]' % cfg, got='no solve effect on the LP path', construct='no-solve')
        return
    # R3: single problem object
    probs = r.of('newprob')
    rep.check(len(probs) == 1, 'C01.R3', probs[0].where if probs else where_run,
              'exactly one LpProblem is created per solve() [%s]' % cfg, got='%d LpProblem constructions' % len(probs),
              want='1', construct='newprob-count')
    over = [e for e in r.of('store') if any(e.eff.target == p_.eff.target for p_ in probs)]
    rep.check(not over, 'C01.R3', over[0].where if over else where_run, 'the problem object is never replaced once it is built [%s]' % cfg,
              got=['%s = %s' % (show(e.eff.target), show(e.eff.value)[:40]) for e in over] or 'assigned once', want='one assignment', construct='LpProblem attribute overwritten', loc=over[0].loc if over else None)
    recvs = {show(e.eff.recv) for e in r.of('addc', 'solve', 'setobj')}
    rep.check(len(recvs) == 1, 'C01.R3', where_run, 'constraints, objective and solve use the same problem object [%s]' % cfg,
              got=sorted(recvs), want='one receiver', construct='receiver-set')
    # R1: variable domains
    for d in r.declvars():
        ev = d['ev']
        carried = None
        for e2 in r.events:
            if e2.kind == 'store' and e2.eff.value == ev.eff.var and e2.eff.target[0] == 'attr':
                carried = e2.eff.target[2]
            if e2.kind == 'append' and e2.eff.value == ev.eff.var:
                carried = lp.model_attr(e2.eff.target)
        role = r.canon.attr_letter.get(carried) or (r.canon.arr_letter.get(carried) or (None,))[0]
        if role in ('x', 'c'):
            ok = d.get('cat') == 'Binary' or (d.get('cat') == 'Integer' and d.get('low') == {} and d.get('up') == pconst(1))
            rep.check(ok, 'C01.R1', ev.where, 'variable %s (role %s) is 0/1 [%s]' % (d.get('name'), role, cfg),
                      got='cat=%s low=%s up=%s' % (d.get('cat'), d.get('low') and pshow(d['low']), d.get('up') and pshow(d['up'])),
                      want="cat='Binary' (or Integer in [0,1])", construct='domain of %s' % role, loc=ev.loc)
        if role == 'c' and carried in r.canon.arr_letter:
            sort = r.canon.arr_letter[carried][1]
            off = r.canon.off_by_some(carried)
            rep.check(sort in ('P', None) and off is None, 'C01.R1', ev.where, 'one closure variable is declared per project [%s]' % cfg, got=('declared for ' + off) if off else 'one per %s' % {'L': 'lecturer', 'S': 'student', None: 'element of an unrecognised range'}.get(sort, sort),
                      want='for proj_index in range(num_projects)', construct='closure variables per %s' % sort, loc=ev.loc)
    have_x = any(a == 'lp_var' or r.canon.attr_letter.get(a) == 'x' for a in r.canon.var_attrs)
    rep.check(have_x, 'C01.R1', where_run, 'decision variables are declared for every pair [%s]' % cfg, got=list(r.canon.var_attrs),
              construct='x-declared')
    # R2/R3: validity families before the first solve, unconditional
    need = [k for k, v in spec.VALIDITY.items() if v[2] == 'always' or v[2] == ('pc' if pc else 'nopc')]
    pre = [e for e in r.of('addc') if e.order < first]
    for k in need:
        ref = lpfacts.ref_family(spec.VALIDITY[k])
        hits = [e for e in pre if e.fam is not None and e.fam.core() == ref.core()]
        uncond = [e for e in hits if not e.sym_ifs and all(c.kind == 'for' for c in e.loops)]
        if uncond:
            rep.ok('C01.R2', uncond[0].where, 'validity family %s present [%s]' % (k, cfg), got=uncond[0].fam.text(), want=ref.text(), loc=uncond[0].loc)
            # nothing may leave the path before it
            # only a return in a function that is still on the call stack of the constraint can skip it
            stack = uncond[0].calls
            exits = [x for x in r.events if x.order < uncond[0].order and x.kind in ('return', 'raise') and x.sym_ifs
                     and x.calls == stack[:len(x.calls)]]
            rep.check(not exits, 'C01.R3', uncond[0].where, 'family %s is reached on every path to the first solve [%s]' % (k, cfg),
                      got=[x.loc for x in exits], construct='conditional exit before %s' % k)
            continue
        if hits:
            e = hits[0]
            rep.fail('C01.R3', e.where, 'validity family %s is added on every path before the first solve [%s]' % (k, cfg),
                     got='added only under: ' + ' and '.join(show(c.cond if br else NOT(c.cond)) for c, br in e.sym_ifs),
                     want='unconditional', construct='conditional %s' % k, loc=e.loc)
            continue
        late = [e for e in r.of('addc') if e.fam is not None and e.fam.core() == ref.core()]
        if late:
            rep.fail('C01.R3', late[0].where, 'validity family %s precedes every solve [%s]' % (k, cfg),
                     got='first added after a solve', want='before the first solve', construct='late %s' % k, loc=late[0].loc)
            continue
        # nearest recognised family: same quantifiers and same summed variable
        near = [e for e in pre if e.fam is not None and e.fam.quants == ref.quants and
                {m.var for m in e.fam.monos if m.sumvar} == {m.var for m in ref.monos if m.sumvar} and e.fam.core() not in ref_keys(pc)]
        if near:
            e = near[0]
            rep.fail('C01.R2', e.where, 'validity family %s equals the reference [%s]' % (k, cfg), got=e.fam.text(), want=ref.text(),
                     construct='%s deviates: %s' % (k, e.fam.text()), loc=e.loc)
        else:
            bad = [e for e in pre if e.fam is None]
            if bad:
                lpfacts.report_unnormalised(rep, 'C01.R2', bad[0], 'validity family %s not found and a constraint could not be normalised [%s]' % (k, cfg), '[%s]' % cfg)
            else:
                rep.fail('C01.R2', where_run, 'validity family %s is present [%s]' % (k, cfg), got='absent', want=ref.text(),
                         construct='%s absent' % k)


def ref_keys(pc):
    return {lpfacts.ref_family(v).core() for v in spec.VALIDITY.values()}


# ---- R4 -------------------------------------------------------------------------------------------
GROUPS = [('set_project_lists', 'project_lists', 'num_projects', 'project_index', 0),
          ('set_lecturer_lists', 'lecturer_lists', 'num_lecturers', 'lecturer_index', 0)]


def check_grouping(rep, repo, groups=GROUPS, rule='C01.R4'):
    for meth, attr, count, key, off in groups:
        f = repo.method('Model', meth)
        it = Interp(repo)
        try:
            effs, _ = it.run(f, {}, selfterm=lp.MODEL)
        except Unknown as u:
            rep.inconclusive(rule, f.where, 'grouping function is inside the interpreted fragment', got=str(u))
            continue
        check_scatter(rep, rule, f, effs, attr, count, key, off)


def check_scatter(rep, rule, f, effs, attr, count, key, off, sizeterm=None, size_ok=None):
    """attr = group-by of ALL pairs by pair.<key> - off into `count` slots (loops, comprehensions, helpers, lambdas alike)."""
    from ..shapes import extract_scatter, all_pairs_chain
    target = A(lp.MODEL, attr)
    try:
        sc = extract_scatter(effs, target)
    except Unknown as u:
        # one of several assignments takes the groups of ANOTHER key over (lecturer_lists = copy of project_lists): right only
        # where every project is its own lecturer, which a test on the agent counts does not establish
        other = {'project_lists': 'project_index', 'lecturer_lists': 'lecturer_index'}
        for e_, ctx_ in iter_effects(effs):
            if e_.kind == 'store' and e_.target == target:
                src = [x for x in walk(e_.value) if x[0] == 'attr' and x[1] == lp.MODEL and x[2] in other and x[2] != attr]
                conds = [c_.cond for c_, _ in ctx_ if c_.kind == 'if']
                only_counts = conds and all(not contains(c_, lambda y: y[0] == 'attr' and not (y[2].startswith('num_') or y == lp.MODEL or y[1] != lp.MODEL)) for c_ in conds)
                if src and only_counts and other[src[0][2]] != key:
                    rep.fail(rule, f.where, '%s groups the pairs by their own %s on every path' % (attr, key),
                             got='when %s the groups are taken over from %s (keyed by %s)' % (' and '.join(show(c_)[:60] for c_ in conds), src[0][2], other[src[0][2]]),
                             want='scatter by pair.%s' % key, construct='%s copied from %s under a test on the agent counts' % (attr, src[0][2]), loc=e_.loc)
                    return
        rep.inconclusive(rule, f.where, '%s is built by a recognised group-by' % attr, got=str(u))
        return
    for kind, msg, e in sc.problems:
        if kind == 'compaction':
            rep.fail(rule, f.where, '%s has one list per agent, also for an agent no pair refers to (%s)' % (attr, count), got=msg, want='[[] for _ in range(%s)] filled by index' % count,
                     construct='%s compacted over the keys that occur' % attr, loc=e.loc)
            return
        rep.fail(rule, f.where, '%s accumulates every pair (never overwrites a slot)' % attr, got=msg, want='append of each pair', construct='%s slot overwritten' % attr, loc=e.loc)
        return
    want = sizeterm if sizeterm is not None else A(lp.MODEL, count)
    if sc.size is None:
        rep.inconclusive(rule, f.where, '%s has one list per agent (%s)' % (attr, count), got='slots are appended on demand')
        oksize = True
    else:
        oksize = size_ok(sc.size) if size_ok is not None else sc.size == want
    rep.check(oksize, rule, f.where, '%s has one (initially empty) list per agent (%s)' % (attr, count), got=show(sc.size)[:160], want='[[] for _ in range(%s)]' % count,
              construct='%s size %s' % (attr, show(sc.size)[:80]), loc=sc.init_loc.loc if sc.init_loc else None)
    if not sc.entries:
        rep.fail(rule, f.where, 'every pair is appended to %s' % attr, got='no append into %s' % attr, want='append of each pair', construct='%s no-append' % attr)
        return
    if len(sc.entries) != 1:
        rep.inconclusive(rule, f.where, '%s is filled by a single scatter' % attr, got='%d append sites' % len(sc.entries))
        return
    op, k, val, chain, e = sc.entries[0]
    if op not in ('appendidx',):
        rep.fail(rule, f.where, 'pairs are appended to their list', got=op, want='append', construct='%s filled by %s' % (attr, op), loc=e.loc)
        return
    ap = all_pairs_chain(chain)
    if ap is None:
        rep.fail(rule, f.where, 'the scatter ranges over ALL pairs of ALL students', got=[show(b[3])[:60] + (' if ' + show(g)[:60] if g != TRUE else '') for b, g in chain],
                 want='for row in pairs: for pair in row', construct='%s domain' % attr, loc=e.loc)
        return
    elem, rows, g = ap
    if g != TRUE:
        rep.fail(rule, f.where, 'ALL pairs are filed (no filter)', got='append guarded by ' + show(g).replace(show(elem), 'pair'), want='unconditional', construct='%s filtered' % attr, loc=e.loc)
        return
    rep.check(val == elem, rule, f.where, 'the pair itself is filed', got=show(val).replace(show(elem), 'pair'), want='pair', construct='%s value' % attr, loc=e.loc)
    wantk = A(elem, key) if off == 0 else BIN('Sub', A(elem, key), C(off))
    rep.check(k == wantk, rule, f.where, 'each pair is filed under its own %s%s' % (key, '' if not off else ' - %d' % off), got=show(k).replace(show(elem), 'pair'),
              want=show(wantk).replace(show(elem), 'pair'), construct='%s key %s' % (attr, show(k).replace(show(elem), 'pair')), loc=e.loc)


# ---- R5 ---------------------------------------------------------------------------------------------
def check_readback(rep, repo):
    from ..shapes import selection, all_pairs_chain
    rule = 'C01.R5'
    f = repo.method('Model', '_get_pair_assignments')
    it = Interp(repo)
    try:
        effs, rv = it.run(f, {}, selfterm=lp.MODEL)
    except Unknown as u:
        rep.inconclusive(rule, f.where, 'read-back function is inside the interpreted fragment', got=str(u))
        rv = None
    if rv is not None and selection(rv) is None:
        # a read-back with a mode parameter: judged with the arguments Model.get_results passes
        from ..shapes import returns_as_called
        called = [r_ for r_ in returns_as_called(repo, f, lp.MODEL) if selection(r_) is not None]
        if called:
            rv = called[0]
    if rv is not None:
        sel = selection(rv)
        if sel is None:
            if contains(rv, lambda x: x[0] == 'top'):
                rep.inconclusive(rule, f.where, 'the reported pairs are a selection from all pairs', got=show(rv)[:200])
            else:
                rep.fail(rule, f.where, 'read-back ranges over all pairs of all students and returns the selected pairs', got=show(rv)[:200],
                         want='[pair for row in pairs for pair in row if pair.lp_var.varValue]', construct='readback domain')
        else:
            pair, g = sel
            vv = A(A(pair, 'lp_var'), 'varValue')
            rep.check(truthy_of(g, vv), rule, f.where, 'a pair is reported iff its own decision variable is set', got=show(g).replace(show(pair), 'pair'),
                      want='pair.lp_var.varValue (truthy, or > threshold in (0,1))', construct='readback guard ' + show(g).replace(show(pair), 'pair'))
    # per-student variant (used by the stability check)
    h = repo.method('Model', '_get_pair_assignments_with_none')
    it = Interp(repo)
    try:
        effs, rv2 = it.run(h, {}, selfterm=lp.MODEL)
        guards = []
        for x in walk(rv2):
            if x[0] == 'attr' and x[2] == 'varValue':
                guards.append(x)
        ok = bool(guards) and all(x[1][0] == 'attr' and x[1][2] == 'lp_var' for x in guards)
        rep.check(ok, rule, h.where, 'the per-student read-back selects by the decision variables too', got=[show(x) for x in guards][:3], want='pair.lp_var.varValue',
                  construct='with_none guard')
    except Unknown as u:
        rep.inconclusive(rule, h.where, 'per-student read-back is inside the interpreted fragment', got=str(u))
    f = repo.method('Model', '_get_matching_string')
    it = Interp(repo)
    try:
        effs, rv = it.run(f, {}, selfterm=lp.MODEL)
    except Unknown as u:
        rep.inconclusive(rule, f.where, 'matching-string function is inside the interpreted fragment', got=str(u))
        return
    # canonical form: ' '.join(scatter of str(projectID) at student_index over ['0'] * num_students), whatever the construction
    from ..canon import canon, equiv, replace, closed
    from .c11 import ref_matching_array, PA
    # the argument is the list of matched pairs, never None (a helper with an optional parameter tests for that)
    pa_ = S(f.params[1])
    rv = simp_top(refine(rv, {CMP('Is', pa_, NONE): False, CMP('Eq', pa_, NONE): False, CMP('IsNot', pa_, NONE): True, CMP('NotEq', pa_, NONE): True}))
    got_c = canon(rv)
    while got_c[0] == 'fstr' and len(got_c[1]) == 1:
        got_c = got_c[1][0]
    want = canon(replace(('sjoin', C(' '), ref_matching_array()), PA, S(f.params[1])))
    alt_b = ('bvar', -7, 'p', S(f.params[1]))
    ok = equiv(got_c, want)
    if not ok and closed(got_c) is not None:
        rep.inconclusive(rule, f.where, 'the matching line is inside the aggregate algebra', got=closed(got_c))
        return
    rep.check(ok, rule, f.where, "matching line: '0' per student, project ID written at the student's own index",
              got=show(got_c)[:200], want="' '.join(['0']*num_students with [pair.student_index] = str(pair.projectID))", construct='matching-string schema')


def truthy_of(g, vv):
    if g == vv:
        return True
    if g[0] == 'cmp' and g[2] == vv and g[1] in ('Gt', 'GtE') and is_num(g[3]) and 0 < g[3][1] < 1:
        return True
    if g[0] == 'cmp' and g[2] == vv and g[1] == 'Eq' and g[3] == C(1):
        return True
    if g[0] == 'cmp' and g[2] == vv and g[1] == 'Gt' and g[3] == C(0):
        return True
    if g[0] == 'cmp' and g[2] == vv and g[1] == 'NotEq' and g[3] in (C(0), C(0.0)):
        return True                           # a 0/1 variable: non-zero (None is excluded by a separate conjunct, or never occurs: x is in ST)
    if g[0] == 'call' and g[1] == S('bool') and g[2] == (vv,):
        return True
    if g[0] == 'bool' and g[1] == 'and':
        # conjunction of a None test and a truthiness / threshold test
        rest = [c for c in g[2] if c not in (CMP('IsNot', vv, NONE), CMP('NotEq', vv, NONE), NOT(CMP('Is', vv, NONE)), NOT(CMP('Eq', vv, NONE)))]
        return len(rest) == 1 and truthy_of(rest[0], vv)
    return False
