"""C17 -- popularity skew is linear with the requested ratio (DESIGN.md section 5, C17).

The weight list is extracted as a symbolic list model (length, explicit entries, ranges with an element formula); the
element formula is a rational function in (x, n, s) and the property is decided by polynomial identities
(cross-multiplied, no division): affine in x, f(0) = 1 = the explicit first entry, f(n-1) = s, normalised by the sum of
the SAME list; every division by an expression that vanishes at n = 1 is evaluated only where n >= 2;
the function depends on nothing but (n, s); the vector reaches np.random.choice(p=...) unchanged and aligned."""
import ast

from ..terms import *
from ..poly import *
from ..absint import Interp, iter_effects
from ..loader import AnalysisError

RULES = {
    'C17.R1': 'weight list model: n entries; entry 0 and entries 1..n-1 given by one formula f(x) that is affine in x with f(0) = 1 and f(n-1) = s (polynomial identities)',
    'C17.R2': 'the returned vector is the list divided by the sum of the same list (sums to one; a single agent gets weight one)',
    'C17.R3': 'every division by a quantity that vanishes for n = 1 is evaluated only where n >= 2',
    'C17.R4': 'the weights depend only on (n, s): no module-level mutable state, no in-place update of shared arrays',
    'C17.R5': 'the vector is passed unchanged as p= to the without-replacement draw over a population of the same n agents',
}


class Rat:
    """rational function num/den over polynomials"""
    def __init__(self, num, den=None):
        self.num, self.den = num, (den if den is not None else pconst(1))

    def __add__(self, o): return Rat(padd(pmul(self.num, o.den), pmul(o.num, self.den)), pmul(self.den, o.den))
    def __sub__(self, o): return Rat(psub(pmul(self.num, o.den), pmul(o.num, self.den)), pmul(self.den, o.den))
    def __mul__(self, o): return Rat(pmul(self.num, o.num), pmul(self.den, o.den))
    def div(self, o): return Rat(pmul(self.num, o.den), pmul(self.den, o.num))


def rat(t, names):
    """term -> Rat over atoms given by `names` (term -> atom name); wrappers float()/np.float64() are transparent."""
    if t in names:
        return Rat(patom(names[t]))
    k = t[0]
    if k == 'const' and isinstance(t[1], (int, float)) and not isinstance(t[1], bool):
        v = t[1]
        if isinstance(v, float):
            if v != int(v):
                from fractions import Fraction
                fr = Fraction(v).limit_denominator(10 ** 6)
                return Rat(pconst(fr.numerator), pconst(fr.denominator))
            v = int(v)
        return Rat(pconst(v))
    if k == 'bin':
        a, b = rat(t[2], names), rat(t[3], names)
        if t[1] == 'Add': return a + b
        if t[1] == 'Sub': return a - b
        if t[1] == 'Mult': return a * b
        if t[1] == 'Div': return a.div(b)
        raise Unknown('operator %s in the weight formula' % t[1])
    if k == 'un' and t[1] == 'USub':
        return Rat(pconst(0)) - rat(t[2], names)
    if k == 'call' and show(t[1]) in ('float', 'np.float64', 'np.float_') and len(t[2]) == 1:
        return rat(t[2][0], names)
    raise Unknown('weight formula term ' + show(t)[:80])


def psub_atom(p, atom, q):
    """substitute atom := polynomial q"""
    return psubst(p, lambda a: q if a == atom else None)


def prop_implies(premises, conclusions):
    """propositional implication over the comparison atoms of the formulas (<= 8 atoms): every valuation that satisfies all
    premises satisfies all conclusions"""
    import itertools
    atoms = []
    def collect(t):
        if t[0] == 'not':
            collect(t[1])
        elif t[0] == 'bool':
            for x in t[2]:
                collect(x)
        elif t not in (TRUE, FALSE) and t not in atoms:
            atoms.append(t)
    for t in list(premises) + list(conclusions):
        collect(t)
    if len(atoms) > 8:
        return False
    def ev(t, val):
        if t == TRUE: return True
        if t == FALSE: return False
        if t[0] == 'not': return not ev(t[1], val)
        if t[0] == 'bool':
            vs = [ev(x, val) for x in t[2]]
            return all(vs) if t[1] == 'and' else any(vs)
        return val[t]
    for bits in itertools.product([False, True], repeat=len(atoms)):
        val = dict(zip(atoms, bits))
        if all(ev(p_, val) for p_ in premises) and not all(ev(c_, val) for c_ in conclusions):
            return False
    return True


def unwrap_array(t):
    while t[0] == 'call' and show(t[1]) in ('np.array', 'np.asarray', 'list', 'np.asfarray', 'np.fromiter', 'numpy.fromiter', 'tuple') and len(t[2]) >= 1:
        t = t[2][0]
    return t


class ListModel:
    def __init__(self, t, n):
        """t: list-valued term; n: the length symbol term"""
        self.points = {}
        self.ranges = []      # (lo term, hi term, binder, value)
        self.length = None
        self.default = None
        self.int_buffer = None
        self.build(unwrap_array(t), n)

    def build(self, t, n):
        if t[0] == 'accum':
            self.build(t[1], n)
            for op, idx, val, ch in t[2]:
                if op == 'setidx' and len(ch) == 1 and ch[0][1] == TRUE:
                    b = ch[0][0]
                    dom = b[3]
                    if idx == b and dom[0] == 'call' and dom[1] == S('range') and len(dom[2]) in (1, 2):
                        lo, hi = (C(0), dom[2][0]) if len(dom[2]) == 1 else dom[2]
                        self.ranges.append((lo, hi, b, val))
                        continue
                    if idx == b and dom[0] == 'call' and dom[1] == S('range') and len(dom[2]) == 3 and dom[2][2] == C(-1):
                        # descending range(a, b, -1) visits a, a-1, ..., b+1: the index set of range(b + 1, a + 1)
                        lo = simp(BIN('Add', dom[2][1], C(1)))
                        hi = simp(BIN('Add', dom[2][0], C(1)))
                        if hi == BIN('Add', BIN('Sub', n, C(1)), C(1)):
                            hi = n
                        self.ranges.append((lo, hi, b, val))
                        continue
                raise Unknown('list update %s[%s] in a loop' % (op, show(idx)))
            return
        if t[0] == 'upd':
            self.build(t[1], n)
            op, idx, val = t[2], t[3], t[4]
            if op == 'setidx' and idx[0] == 'const':
                self.points[idx[1]] = val
                return
            if op == 'setslice':
                lo, hi = idx[1]
                v = val
                # vectorised right-hand side over np.arange(lo, n): element x of the slice is the expression at arange := x
                ar = [x for x in walk(v) if x[0] == 'call' and show(x[1]) in ('np.arange', 'numpy.arange') and len(x[2]) == 2]
                if ar and hi == NONE and ar[0][2][0] == lo and all(a == ar[0] for a in ar):
                    b = ('bvar', -17, 'x', CALL(S('range'), [ar[0][2][0], ar[0][2][1]]))
                    def rw(x, a=ar[0], b=b):
                        return b if x == a else None
                    self.ranges.append((ar[0][2][0], ar[0][2][1], b, subst(v, rw)))
                    return
                if v[0] == 'comp' and len(v[1]) == 1 and v[1][0][1] == TRUE:
                    b = v[1][0][0]
                    dom = b[3]
                    if dom[0] == 'call' and dom[1] == S('range') and len(dom[2]) == 2 and dom[2][0] == lo and hi == NONE:
                        self.ranges.append((dom[2][0], dom[2][1], b, v[2]))
                        return
                raise Unknown('slice assignment ' + show(val)[:80])
            raise Unknown('list update %s' % op)
        if t[0] == 'bin' and t[1] == 'Mult':
            lst, cnt = (t[2], t[3]) if t[2][0] == 'list' else (t[3], t[2])
            if lst[0] == 'list' and len(lst[1]) == 1:
                self.length, self.default = cnt, lst[1][0]
                return
        if t[0] == 'call' and show(t[1]) in ('np.full', 'numpy.full') and len(t[2]) == 2:
            self.length, self.default = t[2][0], t[2][1]
            dt = dict(t[3]).get('dtype') if len(t) > 3 else None
            if dt is None and t[2][1][0] == 'const' and isinstance(t[2][1][1], int) and not isinstance(t[2][1][1], bool):
                self.int_buffer = show(t)          # np.full(n, 1) is an INTEGER array: floats stored into it are truncated
            elif dt is not None and show(dt) in ('int', 'np.int64', 'np.int32', 'np.int_'):
                self.int_buffer = show(t)
            return
        if t[0] == 'call' and show(t[1]) in ('np.empty', 'np.zeros', 'np.ones', 'numpy.empty', 'numpy.zeros', 'numpy.ones') and len(t[2]) >= 1:
            self.length = t[2][0]
            self.default = {'empty': None, 'zeros': C(0.0), 'ones': C(1.0)}[show(t[1]).split('.')[-1]]
            return
        if t[0] == 'bin' and t[1] == 'Add' and t[2][0] in ('list', 'comp', 'cat') and t[3][0] in ('list', 'comp', 'cat'):
            return self.build(('cat', (t[2][1] if t[2][0] == 'cat' else (t[2],)) + (t[3][1] if t[3][0] == 'cat' else (t[3],))), n)
        if t[0] == 'cat':
            # [first] ++ [f(x) for x in range(1, n)]
            pos = 0
            for part in t[1]:
                if part[0] == 'list':
                    for el in part[1]:
                        self.points[pos] = el
                        pos += 1
                elif part[0] == 'comp' and len(part[1]) == 1 and part[1][0][1] == TRUE:
                    b = part[1][0][0]
                    dom = b[3]
                    if dom[0] == 'call' and dom[1] == S('range') and len(dom[2]) == 2 and dom[2][0] == C(pos):
                        self.ranges.append((dom[2][0], dom[2][1], b, part[2]))
                        self.length = dom[2][1]
                        continue
                    raise Unknown('list part ' + show(part)[:80])
                else:
                    raise Unknown('list part ' + show(part)[:80])
            return
        # a vectorised expression over np.arange(n) / np.arange(lo, n): entry x is the expression at arange := x
        ar = [x for x in walk(t) if x[0] == 'call' and show(x[1]) in ('np.arange', 'numpy.arange') and len(x[2]) in (1, 2) and not (len(x) > 3 and x[3])]
        if t[0] in ('bin', 'un') and ar and all(a == ar[0] for a in ar):
            lo, hi = (C(0), ar[0][2][0]) if len(ar[0][2]) == 1 else ar[0][2]
            if lo == C(0):
                b = ('bvar', -18, 'x', CALL(S('range'), [lo, hi]))
                self.length = hi
                self.ranges.append((lo, hi, b, subst(t, lambda x, a=ar[0], b=b: b if x == a else None)))
                return
        raise Unknown('weight list ' + show(t)[:100])


def is_agent_array(t, n2):
    """np.arange(1, n + 1), possibly shuffled in place (random.shuffle / np.random.shuffle leave the multiset unchanged)"""
    while t[0] == 'upd' or (t[0] == 'call' and t[1] in (S('list'), S('tuple'))):
        t = t[1] if t[0] == 'upd' else t[2][0]
    return t[0] == 'call' and show(t[1]) == 'np.arange' and len(t[2]) == 2 and t[2][0] == C(1) and t[2][1] == BIN('Add', n2, C(1))


def run(rep, repo, tier):
    for k, v in RULES.items():
        rep.rule(k, v)
    from ..defined import check_defined
    check_defined(rep, repo, 'C17.R4', [repo.function('create_pref_lists_original', required=False), repo.function('create_linear_distribution', required=False)], 'popularity weights')
    rep.assumptions += ['floating-point rounding of the sum is not decided', 'n >= 1 and s > 0 (C15 bounds)']
    f = repo.function('create_linear_distribution')
    n_t, s_t = S(f.params[0]), S(f.params[1])
    own_decorators = [d for d in f.node.decorator_list if ast.unparse(d).split('(')[0].split('.')[-1] not in ('staticmethod',)]
    if own_decorators:
        # what callers receive is what the decorator makes of the function's result (a normalising wrapper, a cache, ...): the body
        # alone does not say
        rep.inconclusive('C17.R1', f.where, 'the distribution function is called as written (no decorator between it and its callers)', got='@' + ast.unparse(own_decorators[0])[:60])
        return
    it = Interp(repo)
    try:
        effs, rv = it.run(f, {})
    except Unknown as u:
        rep.inconclusive('C17.R1', f.where, 'the distribution function is inside the interpreted fragment', got=str(u))
        return
    names = {n_t: 'n', s_t: 's'}
    # ---- paths: (guard, returned term) ----
    paths = []
    def conj(g):
        return [y for x in g[2] for y in conj(x)] if (g[0] == 'bool' and g[1] == 'and') else [g]
    def split(t, guards):
        if t[0] == 'ite':
            split(t[2], guards + conj(t[1]))
            split(t[3], guards + conj(simp(NOT(t[1]))))
        else:
            paths.append((guards, t))
    def lift(t, depth=0):
        # f(... (c ? a : b) ...)  ->  c ? f(... a ...) : f(... b ...): a list chosen by a condition and normalised afterwards
        if depth > 4 or t[0] == 'ite':
            return t
        inner = [x for x in walk(t) if x[0] == 'ite' and x is not t]
        if not inner:
            return t
        i0 = inner[0]
        from ..canon import replace as _repl
        return ('ite', i0[1], lift(_repl(t, i0, i0[2]), depth + 1), lift(_repl(t, i0, i0[3]), depth + 1))
    def lift_all(t):
        if t[0] == 'ite':
            return ('ite', t[1], lift_all(t[2]), lift_all(t[3]))
        return lift(t)
    split(lift_all(rv), [])
    rep.count('return_paths', len(paths))
    for guards, t in paths:
        if any(NOT(g) in guards for g in guards):
            continue            # infeasible combination produced by merging early returns
        # a path on which the function RAISES returns nothing and is not a return of None: the raise effects' own path conditions
        raised = False
        if t == NONE or contains(t, lambda y: y == NONE):
            for e_, ctx_ in iter_effects(effs):
                if e_.kind == 'raise':
                    rc = [(c_.cond if br else NOT(c_.cond)) for c_, br in ctx_ if c_.kind == 'if']
                    if rc and all(any(g == r_ or simp(g) == simp(r_) for g in guards) for r_ in rc):
                        raised = True
                    elif rc and prop_implies(guards, rc):
                        raised = True
        if raised:
            continue
        if t == NONE:
            rep.fail('C17.R2', f.where, 'the weight vector is returned on every path', got='no value is returned when ' + (' and '.join(show(g) for g in guards) or 'the function is called') + ' (numpy then draws uniformly: p=None)',
                     want='return weights / sum(weights)', construct='distribution not returned')
            continue
        subst_s = None
        cond_txt = ' and '.join(show(g) for g in guards) or 'always'
        n_is_one = False
        unknown_guard = False
        for g in guards:
            c = g
            if c in (CMP('Eq', s_t, C(1)), CMP('Eq', s_t, C(1.0)), CMP('Eq', C(1), s_t), CMP('Eq', C(1.0), s_t)):
                subst_s = pconst(1)
            elif c in (CMP('Eq', n_t, C(1)), CMP('Eq', C(1), n_t), CMP('LtE', n_t, C(1)), CMP('Lt', n_t, C(2))):
                n_is_one = True
            elif c[0] == 'not':
                pass            # complement of a special case: the general formula must hold anyway
            else:
                unknown_guard = True
        check_path(rep, f, t, names, n_t, s_t, cond_txt, subst_s, n_is_one, unknown_guard)
    check_divisions(rep, f, effs, names, n_t)
    check_purity(rep, repo, f)
    check_use(rep, repo, f)


def check_path(rep, f, t, names, n_t, s_t, cond_txt, subst_s, n_is_one, unknown_guard):
    w = f.where
    # min(1, s) / max(1, s) in the formula: decided on s >= 1 and on s <= 1 separately (both are admissible skews)
    def is_mm(x):
        return x[0] == 'call' and x[1] in (S('min'), S('max')) and len(x[2]) == 2 and not (len(x) > 3 and x[3]) \
            and s_t in x[2] and any(y in (C(1), C(1.0)) for y in x[2])
    if contains(t, is_mm):
        for label, big in (('s >= 1', True), ('s <= 1', False)):
            def pick(x, big=big):
                if is_mm(x):
                    one = [y for y in x[2] if y in (C(1), C(1.0))][0]
                    return (s_t if big else one) if x[1] == S('max') else (one if big else s_t)
                return None
            check_path(rep, f, simp_top(subst(t, pick)), names, n_t, s_t, (cond_txt + ' and ' + label) if cond_txt != 'always' else label, subst_s, n_is_one, unknown_guard)
        return
    # result = L / sum(L)
    t = unwrap_array(t)
    if n_is_one and not (t[0] == 'bin' and t[1] == 'Div'):
        # special case for a single agent: the (already normalised) vector [1]
        try:
            lm = ListModel(t, n_t)
            ok = lm.points.get(0) in (C(1), C(1.0)) or (lm.default in (C(1), C(1.0)))
        except Unknown:
            ok = t in (('list', (C(1.0),)), ('list', (C(1),)))
        rep.check(ok, 'C17.R2', w, 'a single agent gets weight one [%s]' % cond_txt, got=show(t)[:120], want='[1.0]', construct='single-agent vector %s' % show(t)[:60])
        return
    if not (t[0] == 'bin' and t[1] == 'Div'):
        rep.fail('C17.R2', w, 'the returned weights are normalised by their own sum [%s]' % cond_txt, got=show(t)[:160], want='weights / sum(weights)', construct='not normalised [%s]' % cond_txt)
        return
    L, D = unwrap_array(t[2]), t[3]
    sumarg = None
    if D[0] == 'call' and show(D[1]) in ('np.sum', 'sum', 'math.fsum', 'np.add.reduce') and len(D[2]) == 1:
        sumarg = unwrap_array(D[2][0])
    elif D[0] == 'call' and D[1][0] == 'attr' and D[1][2] == 'sum' and not D[2]:
        sumarg = unwrap_array(D[1][1])
    rep.check(sumarg is not None and sumarg == L, 'C17.R2', w, 'the divisor is the sum of the same list that is divided (so the weights sum to one, and one agent gets weight one) [%s]' % cond_txt,
              got=show(D)[:160], want='sum(<the weight list>)', construct='normalising divisor %s' % show(D)[:80])
    if n_is_one and L[0] in ('list', 'tuple') and len(L[1]) == 1 and L[1][0][0] == 'const':
        # the single-agent case written out: a literal one-element list
        rep.check(L[1][0] in (C(1), C(1.0)), 'C17.R1', w, 'a single agent gets the un-normalised weight 1 [%s]' % cond_txt, got=show(L)[:120], construct='single-agent list')
        return
    try:
        lm = ListModel(L, n_t)
    except Unknown as u:
        rep.inconclusive('C17.R1', w, 'the weight list is built in a recognised way [%s]' % cond_txt, got=str(u))
        return
    if n_is_one:
        # special case for a single agent: the list must be [1]
        ok = lm.points.get(0) in (C(1), C(1.0)) and (not lm.ranges or True)
        if not ok and not lm.points and not lm.ranges and lm.default in (C(1), C(1.0)) and lm.length in (C(1), n_t):
            ok = True                  # np.ones(1) / [1.0] * n with n == 1
        rep.check(ok, 'C17.R1', w, 'a single agent gets the un-normalised weight 1 [%s]' % cond_txt, got=show(L)[:120], construct='single-agent list')
        return
    if lm.int_buffer and (lm.ranges or lm.points):
        rep.fail('C17.R1', w, 'the weights are stored as computed (real numbers) [%s]' % cond_txt, got='%s is an integer array: every interpolated weight written into it is truncated to an integer' % lm.int_buffer,
                 want='a float buffer (np.full(n, 1.0), [0.0] * n)', construct='integer weight buffer')
        return
    rep.check(lm.length == n_t, 'C17.R1', w, 'the list has one weight per agent [%s]' % cond_txt, got=show(lm.length) if lm.length else None, want='n', construct='list length %s' % (show(lm.length) if lm.length else None))
    if len(lm.ranges) != 1:
        rep.fail('C17.R1', w, 'entries 1..n-1 are given by one formula [%s]' % cond_txt, got='%d ranges' % len(lm.ranges), construct='range count %d' % len(lm.ranges))
        return
    lo, hi, b, val = lm.ranges[0]
    nm = dict(names)
    nm[b] = 'x'
    try:
        fx = rat(val, nm)
        p0_ = lm.points.get(0, lm.default if lo == C(0) else C(0))
        first = rat(p0_, nm) if ((0 in lm.points or lo == C(0)) and p0_ is not None) else None
    except Unknown as u:
        rep.inconclusive('C17.R1', w, 'the weight formula is a rational function of (x, n, s) [%s]' % cond_txt, got=str(u))
        return
    if subst_s is not None:
        fx = Rat(psub_atom(fx.num, 's', subst_s), psub_atom(fx.den, 's', subst_s))
    txt = '(%s) / (%s)' % (pshow(fx.num), pshow(fx.den))
    # coverage: indices lo..n-1 with lo in {0, 1}; index 0 explicit when lo == 1
    lo_ok = lo in (C(0), C(1)) and affine_equal(hi, n_t) and (lo == C(0) or 0 in lm.points or lm.default is not None)
    rep.check(lo_ok, 'C17.R1', w, 'the formula covers every entry after the first (x = 1 .. n-1) [%s]' % cond_txt, got='x in range(%s, %s)' % (show(lo), show(hi)), want='range(1, n)',
              construct='formula range(%s, %s)' % (show(lo), show(hi)))
    # affine in x
    deg_ok = all(m.count('x') <= 1 for m in fx.num) and all('x' not in m for m in fx.den)
    rep.check(deg_ok, 'C17.R1', w, 'f(x) is affine in x (arithmetic progression) [%s]' % cond_txt, got=txt, construct='f not affine: ' + txt)
    # f(0) = 1
    n0, d0 = psub_atom(fx.num, 'x', pconst(0)), psub_atom(fx.den, 'x', pconst(0))
    rep.check(psub(n0, d0) == {}, 'C17.R1', w, 'f(0) = 1 [%s]' % cond_txt, got='f(0) = (%s)/(%s)' % (pshow(n0), pshow(d0)), want='1', construct='f(0) = (%s)/(%s)' % (pshow(n0), pshow(d0)))
    if lo == C(1):
        p0 = lm.points.get(0, lm.default)           # the first entry: written explicitly, or the value the list was created with
        rep.check(p0 in (C(1), C(1.0)), 'C17.R1', w, 'the explicit first entry equals f(0) = 1 [%s]' % cond_txt, got=show(p0) if p0 else None, want='1.0', construct='first entry %s' % (show(p0) if p0 else None))
    # f(n-1) = s
    nm1 = psub(patom('n'), pconst(1))
    nl, dl = psub_atom(fx.num, 'x', nm1), psub_atom(fx.den, 'x', nm1)
    s_poly = subst_s if subst_s is not None else patom('s')
    rep.check(psub(nl, pmul(s_poly, dl)) == {}, 'C17.R1', w, 'f(n-1) = s: the last weight is s times the first [%s]' % cond_txt,
              got='f(n-1) = (%s)/(%s)' % (pshow(nl), pshow(dl)), want='s', construct='f(n-1) = (%s)/(%s)' % (pshow(nl), pshow(dl)))
    if unknown_guard:
        rep.fail('C17.R1', w, 'the progression with ratio s is returned for every s > 0', got='a different result is returned when ' + cond_txt, want='one formula for all s (special-casing s == 1 is fine)',
                 construct='special case on ' + cond_txt)


def check_divisions(rep, f, effs, names, n_t, rule='C17.R3'):
    """R3"""
    n1 = 0
    for e, ctx in iter_effects(effs):
        if e.kind != 'div':
            continue
        nm = dict(names)
        for c, _ in ctx:
            if c.kind == 'for':
                nm[c.binder] = 'x%d' % c.binder[1]
        try:
            d = rat(e.den, nm)
        except Unknown:
            continue            # not a polynomial divisor (e.g. the normalising sum)
        if d.den != pconst(1) and not is_pconst(d.den):
            continue
        at1 = psub_atom(d.num, 'n', pconst(1))
        if at1 != {}:
            continue            # does not vanish at n = 1
        n1 += 1
        safe = False
        why = []
        # vectorised over np.arange(lo, n) with lo >= 1: an empty array when n == 1, nothing is divided
        def empty_at_one(x):
            if x[0] == 'call' and show(x[1]) in ('np.arange', 'numpy.arange', 'range') and len(x[2]) == 2 and x[2][1] == n_t and x[2][0][0] == 'const' and x[2][0][1] >= 1:
                return True
            return False
        if contains(e.num, empty_at_one):
            safe = True
        for c, br in ctx:
            if c.kind == 'for':
                dom = c.binder[3]
                if dom[0] == 'call' and dom[1] == S('range') and len(dom[2]) == 2 and dom[2][1] == n_t and dom[2][0][0] == 'const' and dom[2][0][1] >= 1:
                    safe = True      # executed at least once only if n >= 2
                elif dom[0] == 'call' and dom[1] == S('range') and len(dom[2]) in (2, 3):
                    # general range(a, b[, step]): empty when n == 1 ?
                    try:
                        a1 = psub_atom(rat(dom[2][0], nm).num, 'n', pconst(1))
                        b1 = psub_atom(rat(dom[2][1], nm).num, 'n', pconst(1))
                        st = dom[2][2][1] if len(dom[2]) == 3 and is_num(dom[2][2]) else (1 if len(dom[2]) == 2 else None)
                        if st is not None and is_pconst(a1) and is_pconst(b1) and rat(dom[2][0], nm).den == pconst(1) and rat(dom[2][1], nm).den == pconst(1):
                            av, bv = pconstval(a1), pconstval(b1)
                            if (st > 0 and av >= bv) or (st < 0 and av <= bv):
                                safe = True      # the loop body does not run at all for a single agent
                    except Unknown:
                        pass
            if c.kind == 'if':
                g = c.cond if br else NOT(c.cond)
                if g in (CMP('Gt', n_t, C(1)), CMP('GtE', n_t, C(2)), NOT(CMP('Eq', n_t, C(1))), CMP('NotEq', n_t, C(1)), NOT(CMP('LtE', n_t, C(1))), NOT(CMP('Lt', n_t, C(2)))):
                    safe = True
        rep.check(safe, rule, e.where, 'the division by %s (zero for a single agent) is only evaluated when n >= 2' % show(e.den), got='evaluated unconditionally' if not safe else 'inside range(1, n) / n > 1',
                  want='inside `for x in range(1, n)` or under n > 1', construct='unguarded division by %s' % show(e.den), loc=e.loc)
    rep.count('divisions_vanishing_at_n1', n1)
    if n1 == 0:
        rep.ok(rule, f.where, 'no division by a quantity that vanishes at n = 1', got='0 such divisions')


def division_safety(rep, repo, rule):
    """Stand-alone form of R3 for other properties (an accepted generator run must not end in ZeroDivision / NaN weights)."""
    f = repo.function('create_linear_distribution')
    n_t, s_t = S(f.params[0]), S(f.params[1])
    try:
        effs, rv = Interp(repo).run(f, {})
    except Unknown as u:
        rep.inconclusive(rule, f.where, 'the distribution function is inside the interpreted fragment', got=str(u))
        return
    check_divisions(rep, f, effs, {n_t: 'n', s_t: 's'}, n_t, rule)


def check_purity(rep, repo, f):
    """R4: the function and its repository callees read no module-level mutable container and perform no in-place
    update of a value that is not freshly created in the same call."""
    tree = repo.trees[f.relpath]
    mutable_globals = {}
    for n in tree.body:
        if isinstance(n, ast.Assign) and len(n.targets) == 1 and isinstance(n.targets[0], ast.Name) and isinstance(n.value, (ast.Dict, ast.List, ast.Set, ast.Call)):
            mutable_globals[n.targets[0].id] = n.lineno
    todo, seen = [f], set()
    bad = []
    reads = []
    while todo:
        g = todo.pop()
        if g in seen:
            continue
        seen.add(g)
        locals_ = {a.arg for a in g.node.args.args}
        for n in ast.walk(g.node):
            if isinstance(n, (ast.Assign, ast.AugAssign, ast.For)):
                tg = n.targets[0] if isinstance(n, ast.Assign) else n.target
                for t in ([tg] if isinstance(tg, ast.Name) else (tg.elts if isinstance(tg, (ast.Tuple, ast.List)) else [])):
                    if isinstance(t, ast.Name):
                        locals_.add(t.id)
        for n in ast.walk(g.node):
            if isinstance(n, ast.Name) and isinstance(n.ctx, ast.Load) and n.id in mutable_globals and n.id not in locals_:
                reads.append((g, n))
            if isinstance(n, ast.Global):
                bad.append('%s:%d declares global %s' % (g.relpath, n.lineno, ', '.join(n.names)))
            if isinstance(n, ast.Call) and isinstance(n.func, ast.Name):
                for c in repo.funcs_by_name.get(n.func.id, []):
                    if c.relpath.startswith(repo.rel('generator')):
                        todo.append(c)
        for d in g.node.decorator_list:
            bad.append('%s:%d decorated with %s (memoisation changes what later calls see)' % (g.relpath, g.node.lineno, ast.unparse(d)))
    unproved = []
    if reads and not bad:
        m_bad, unproved = _memo_discipline(seen, {n.id for _, n in reads})
        bad.extend(m_bad)
    if unproved and not bad:
        rep.inconclusive('C17.R4', f.where, 'a module-level container read by the weight computation is a pure memo table (keyed by everything the cached value depends on, cached objects never updated in place)', got='; '.join(unproved[:3])[:300])
        return
    rep.check(not bad, 'C17.R4', f.where, 'the weights are a function of (n, s) only (%d functions in the slice)' % len(seen), got=bad[:3], want='no shared mutable state',
              construct='shared state: ' + '; '.join(sorted(set(b.split(' ', 1)[1] for b in bad)))[:160])


_INPLACE_METHODS = {'append', 'extend', 'insert', 'pop', 'remove', 'sort', 'reverse', 'clear', 'fill', 'resize', 'put', 'itemset', 'update', 'setdefault', 'popitem', 'add', 'discard', 'partition', 'setfield', 'setflags', 'byteswap'}


def _memo_discipline(funcs, tables):
    """A module-level container M read by the weight computation is harmless exactly when it is a memo table: the only
    accesses are `M[k]`, `M.get(k[, c])`, `k in M` and the insertion `M[k] = v`; the inserted value is computed from the
    key alone; and no name that may refer to a cached object (bound from `M[k]` / `M.get(k)` / a call of a function that
    returns such a name, or the inserted name itself) is updated in place.  Returns (violations, not-proved)."""
    bad, unproved = [], []
    parent = {}
    for g in funcs:
        for n in ast.walk(g.node):
            for c in ast.iter_child_nodes(n):
                parent[c] = n

    def is_table(e):
        return isinstance(e, ast.Name) and e.id in tables

    def table_read(e):      # an expression whose value is an object stored in a table
        if isinstance(e, ast.Subscript) and is_table(e.value):
            return True
        if isinstance(e, ast.Call) and isinstance(e.func, ast.Attribute) and is_table(e.func.value) and e.func.attr == 'get':
            return True
        return False

    sources = set()         # names of functions that may return a cached object
    aliases = {}            # function -> local names that may refer to a cached object
    for _ in range(4):
        for g in funcs:
            al = aliases.setdefault(g, set())
            for n in ast.walk(g.node):
                if isinstance(n, ast.Assign) and len(n.targets) == 1:
                    t, v = n.targets[0], n.value
                    if isinstance(t, ast.Name) and (table_read(v) or (isinstance(v, ast.Name) and v.id in al)
                                                   or (isinstance(v, ast.Call) and isinstance(v.func, ast.Name) and v.func.id in sources)):
                        al.add(t.id)
                    if isinstance(t, ast.Subscript) and is_table(t.value) and isinstance(v, ast.Name):
                        al.add(v.id)
                if isinstance(n, ast.Return) and n.value is not None and ((isinstance(n.value, ast.Name) and n.value.id in al) or table_read(n.value)):
                    sources.add(g.node.name)
    for g in funcs:
        al = aliases.get(g, set())
        params = {a.arg for a in g.node.args.args + g.node.args.kwonlyargs}
        for n in ast.walk(g.node):
            w = '%s:%d' % (g.relpath, getattr(n, 'lineno', 0))
            if isinstance(n, ast.AugAssign):
                t = n.target
                base = t.value if isinstance(t, ast.Subscript) else t
                if isinstance(base, ast.Name) and base.id in al:
                    bad.append('%s updates in place (%s) an object kept in a module-level table: later calls see the changed object' % (w, ast.unparse(n)[:60]))
            if isinstance(n, ast.Assign):
                for t in n.targets:
                    if isinstance(t, ast.Subscript) and isinstance(t.value, ast.Name) and t.value.id in al:
                        bad.append('%s stores into an object kept in a module-level table (%s)' % (w, ast.unparse(n)[:60]))
            if isinstance(n, ast.Call):
                fn = n.func
                if isinstance(fn, ast.Attribute) and isinstance(fn.value, ast.Name) and fn.value.id in al and fn.attr in _INPLACE_METHODS:
                    bad.append('%s calls %s() on an object kept in a module-level table' % (w, fn.attr))
                if (isinstance(fn, ast.Attribute) and fn.attr == 'shuffle') or (isinstance(fn, ast.Name) and fn.id == 'shuffle'):
                    if any(isinstance(a, ast.Name) and a.id in al for a in n.args):
                        bad.append('%s shuffles in place an object kept in a module-level table' % w)
                for k in n.keywords:
                    if k.arg == 'out' and isinstance(k.value, ast.Name) and k.value.id in al:
                        bad.append('%s writes its result into an object kept in a module-level table (out=%s)' % (w, k.value.id))
            if is_table(n) and isinstance(n.ctx, ast.Load):
                p = parent.get(n)
                ok = False
                if isinstance(p, ast.Subscript) and p.value is n:
                    ok = True
                    if isinstance(p.ctx, ast.Del):
                        ok = False
                    if isinstance(p.ctx, ast.Store):
                        pp = parent.get(p)
                        if isinstance(pp, ast.Assign) and len(pp.targets) == 1:
                            keys = {x.id for x in ast.walk(p.slice) if isinstance(x, ast.Name)}
                            v = pp.value
                            defs = [a.value for a in ast.walk(g.node) if isinstance(a, ast.Assign) and len(a.targets) == 1 and isinstance(a.targets[0], ast.Name)
                                    and isinstance(v, ast.Name) and a.targets[0].id == v.id] if isinstance(v, ast.Name) else [v]
                            for d in defs:
                                if table_read(d):
                                    continue
                                used = {x.id for x in ast.walk(d) if isinstance(x, ast.Name) and isinstance(x.ctx, ast.Load)}
                                extra = (used & params) - keys
                                local_extra = {u for u in used - keys - params if any(isinstance(a, (ast.Assign, ast.AugAssign, ast.For)) and u in {y.id for y in ast.walk(a.targets[0] if isinstance(a, ast.Assign) else a.target) if isinstance(y, ast.Name)} for a in ast.walk(g.node))}
                                if extra:
                                    bad.append('%s caches under key (%s) a value that also depends on parameter %s: a later call with another %s gets the stale value' % (w, ', '.join(sorted(keys)), ', '.join(sorted(extra)), ', '.join(sorted(extra))))
                                elif local_extra:
                                    unproved.append('%s cached value depends on local %s' % (w, ', '.join(sorted(local_extra))))
                            if not defs:
                                unproved.append('%s inserted value has no visible definition' % w)
                        else:
                            ok = False
                elif isinstance(p, ast.Attribute) and p.attr == 'get' and isinstance(parent.get(p), ast.Call) and parent.get(p).func is p:
                    ok = True
                elif isinstance(p, ast.Compare) and n in p.comparators and all(isinstance(o, (ast.In, ast.NotIn)) for o in p.ops):
                    ok = True
                if not ok:
                    unproved.append('%s uses the module-level table %s other than as a memo (%s)' % (w, n.id, ast.unparse(p)[:50] if p is not None else '?'))
    return bad, unproved


def check_use(rep, repo, f):
    """R5: create_pref_lists_original draws with p = create_linear_distribution(n2, skew), population 1..n2."""
    g = repo.function('create_pref_lists_original')
    it = Interp(repo)
    try:
        effs, rv = it.run(g, {})
    except Unknown as u:
        rep.inconclusive('C17.R5', g.where, 'the list-drawing function is inside the interpreted fragment', got=str(u))
        return
    dist_calls = [e for e, c in iter_effects(effs) if e.kind == 'call' and e.target is f]
    if not dist_calls:
        # the weights reach the draw some other way (a class, an inlined formula): which vector is drawn from is not decided here
        rep.inconclusive('C17.R5', g.where, 'the list-drawing function obtains its weights from %s' % f.name, got='no call of %s in %s' % (f.name, g.name))
        return
    rep.check(len(dist_calls) == 1, 'C17.R5', g.where, 'the distribution is computed once per instance', got='%d calls' % len(dist_calls), construct='distribution call count')
    if len(dist_calls) != 1:
        return
    dc = dist_calls[0]
    n2 = S(g.params[1])
    rep.check(len(dc.args) >= 2 and dc.args[0] == n2 and dc.args[1] == S(g.params[5]), 'C17.R5', g.where, 'it is computed for the number of rankable agents and the requested skew',
              got=[show(a) for a in dc.args], want='(%s, %s)' % (g.params[1], g.params[5]), construct='distribution arguments %s' % [show(a) for a in dc.args])
    # ... and every generator hands over the skew the user asked for (keyword calls are positional after the loader's
    # normalisation; an omitted argument means the parameter's default, i.e. a fixed skew whatever -skew says)
    skew_pos = g.params.index(g.params[5])
    sites = 0
    for cls_ in ('Generator_ha_sm_hr', 'Generator_spa'):
        for m_ in repo.classes.get(cls_, {}).values():
            for n_ in ast.walk(m_.node):
                if isinstance(n_, ast.Call) and isinstance(n_.func, ast.Name) and n_.func.id == g.name:
                    sites += 1
                    if any(isinstance(a_, ast.Starred) for a_ in n_.args) or any(k_.arg is None for k_ in n_.keywords):
                        rep.inconclusive('C17.R5', m_.where, '%s passes the requested skew to the list-drawing function' % cls_, got='arguments are unpacked from ' + ast.unparse(n_)[:80], loc='%s:%d' % (m_.relpath, n_.lineno))
                        continue
                    kw = {k.arg: k.value for k in n_.keywords}
                    arg = n_.args[skew_pos] if len(n_.args) > skew_pos else kw.get(g.params[5])
                    txt = ast.unparse(arg) if arg is not None else None
                    ok = arg is not None and isinstance(arg, ast.Attribute) and arg.attr == 'skew'
                    if arg is not None and isinstance(arg, ast.Name):
                        vals = [a_.value for a_ in ast.walk(m_.node) if isinstance(a_, ast.Assign) and any(isinstance(t_, ast.Name) and t_.id == arg.id for t_ in a_.targets)]
                        ok = bool(vals) and all(isinstance(v_, ast.Attribute) and v_.attr == 'skew' for v_ in vals)
                    if not ok and arg is not None and not isinstance(arg, (ast.Constant, ast.Attribute)):
                        rep.inconclusive('C17.R5', m_.where, '%s passes the requested skew to the list-drawing function' % cls_, got=txt, loc='%s:%d' % (m_.relpath, n_.lineno))
                        continue
                    rep.check(ok, 'C17.R5', m_.where, '%s passes the requested skew to the list-drawing function' % cls_,
                              got=txt if txt is not None else 'argument omitted: the default %s is used' % (ast.unparse(g.node.args.defaults[skew_pos - len(g.params)]) if g.node.args.defaults and len(g.node.args.defaults) >= len(g.params) - skew_pos else '?'),
                              want='args.skew', construct='%s skew argument %s' % (cls_, txt), loc='%s:%d' % (m_.relpath, n_.lineno))
    rep.check(sites >= 2, 'C17.R5', g.where, 'both generators draw their first-side lists with this function', got='%d call sites' % sites, want='>= 2', construct='list-drawing call sites')
    draws = []
    for e, ctx in iter_effects(effs):
        for k_, v_ in e.__dict__.items():
            if isinstance(v_, tuple) and v_ and isinstance(v_[0], str):
                for t in walk(v_):
                    if t[0] == 'call' and show(t[1]).endswith('random.choice') and dict(t[3]).get('p') is not None:
                        pv = dict(t[3]).get('p')
                        if pv[0] == 'list' and 'replace' not in dict(t[3]):
                            continue          # the two-point tie-indicator draw, not the preference draw
                        draws.append((t, e))
    uniq = {}
    for t, e in draws:
        uniq[t] = e
    # every list that is returned is such a draw, on every path (no unweighted shortcut for some lengths)
    lists_t = rv[1][0] if (rv[0] == 'tuple' and rv[1]) else rv
    elems = []
    if lists_t[0] == 'accum':
        elems = [v for op, idx, v, ch in lists_t[2] if op in ('setidx', 'append')]
    elif lists_t[0] == 'comp':
        elems = [lists_t[2]]
    elif lists_t[0] == 'cat':
        elems = [p_[2] for p_ in lists_t[1] if p_[0] == 'comp']
    def alts(t, conds):
        if t[0] == 'ite':
            return alts(t[2], conds + [t[1]]) + alts(t[3], conds + [NOT(t[1])])
        return [(conds, t)]
    n_el = 0
    via_perm = set()
    for el in elems:
        for conds, t in alts(el, []):
            n_el += 1
            inner = t
            while inner[0] == 'call' and inner[1] in (S('list'), S('tuple')) or (inner[0] == 'call' and show(inner[1]) in ('np.array', 'np.asarray')):
                inner = inner[2][0]
            # PERM[np.random.choice(n, ...)] with PERM a permutation of the agents: the draw of positions, mapped to agents
            if inner not in uniq and inner[0] == 'idx' and inner[2] in uniq and is_agent_array(inner[1], n2):
                via_perm.add(inner[2])
                continue
            if inner not in uniq:
                rep.fail('C17.R5', g.where, 'every preference list is drawn with the popularity weights', got='when %s the list is %s' % (' and '.join(show(c)[:60] for c in conds) or 'always', show(inner)[:100]),
                         want='np.random.choice(agents, length, replace=False, p=weights) on every path', construct='unweighted list: ' + show(inner)[:60])
    if elems and n_el:
        rep.count('list_element_paths', n_el)
    rep.check(bool(uniq), 'C17.R5', g.where, 'preference lists are drawn with the popularity weights', got='%d weighted draws' % len(uniq), construct='no weighted draw')
    for t, e in uniq.items():
        kw = dict(t[3])
        rep.check(kw.get('p') == dc.ret, 'C17.R5', g.where, 'the weights reach the draw unchanged', got=show(kw.get('p'))[:100], want='the value returned by %s' % f.name,
                  construct='p= argument', loc=e.loc)
        rep.check(kw.get('replace') == FALSE, 'C17.R5', g.where, 'the draw is without replacement (distinct entries)', got=show(kw.get('replace')) if kw.get('replace') else None, want='replace=False',
                  construct='replace= argument', loc=e.loc)
        pop = t[2][0] if t[2] else kw.get('a')
        ok = pop is not None and pop[0] == 'call' and show(pop[1]) == 'np.arange' and len(pop[2]) == 2 and pop[2][0] == C(1) and pop[2][1] == BIN('Add', n2, C(1))
        if not ok and t in via_perm and pop == n2:
            ok = True                 # positions 0..n-1 of an array holding the agents 1..n
        if not ok and pop is not None:
            # a population read out of a module-level memo table: what it holds is R4's business (memo discipline), its value is not modelled here
            tables = {x.targets[0].id for x in repo.trees[g.relpath].body if isinstance(x, ast.Assign) and len(x.targets) == 1 and isinstance(x.targets[0], ast.Name)
                      and isinstance(x.value, (ast.Dict, ast.List, ast.Set, ast.Call))}
            import re as _re
            hit = sorted(tb for tb in tables if _re.search(r'(?<![A-Za-z0-9_])%s(?![A-Za-z0-9_])' % _re.escape(tb), show(pop)))
            if hit:
                rep.inconclusive('C17.R5', g.where, 'the population of the weighted draw is a term the check can evaluate', got='read from the module-level table %s: %s' % (', '.join(hit), show(pop)[:100]))
                continue
        rep.check(ok, 'C17.R5', g.where, 'the population weighted is exactly the n agents 1..n (one weight per agent)', got=show(pop)[:100] if pop is not None else None, want='np.arange(1, n2 + 1)',
                  construct='population %s' % (show(pop)[:60] if pop is not None else None), loc=e.loc)
