"""C04 -- several criteria compose lexicographically in the user-given order (DESIGN.md section 5, C04)."""
from ..terms import *
from ..poly import *
from .. import lp, lpfacts, spec
from ..absint import iter_effects

RULES = {
    'C04.R1': 'freeze typestate: SetObjective(+-f); Solve; AddConstraint(f >= f* for MAX, f <= f* for MIN) on the same problem, same f, before the next objective/solve',
    'C04.R2': 'one problem object, constant sense; the objective is replaced, constraints are only ever added',
    'C04.R3': 'criteria are dispatched by iterating optimisation_options itself, in order, one dispatch per element',
    'C04.R4': 'who-may-solve: solves occur only inside a criterion dispatch, or on the no-criterion path',
    'C04.R6': 'auxiliary definitions a criterion relies on (load-deviation variables and their defining constraints) are in place whatever the position of the criterion',
    'C04.R5': 'positions are mapped to list order by the scatter/compact helper (= C16.R1)',
}


def cfgname(crit):
    return '[%s]' % ','.join(c[0] for c in crit)


def configs(tier):
    names = list(spec.CRITERIA)
    cfgs = [[lpfacts.crit_config(n)] for n in names]
    # ordered pairs that exercise MAX-after-MIN, MIN-after-MAX, load balancing first / last, and reversed enum order
    pairs = [('LOADMAXBAL', 'MAXSIZE'), ('MAXSIZE', 'LOADMAXBAL'), ('MINCOST', 'MAXSIZE'), ('MAXSIZE', 'MINCOST'), ('GREEDY', 'MAXSIZE'),
             ('GENEROUS', 'GREEDY'), ('GREEDY', 'GENEROUS'), ('LOADSUMBAL', 'MINSIZE'), ('MINCOSTLSB', 'GREEDY'), ('MINSQCOST', 'MINCOST')]
    cfgs += [[lpfacts.crit_config(a), lpfacts.crit_config(b)] for a, b in pairs]
    cfgs.append([lpfacts.crit_config(n) for n in names])
    cfgs.append([lpfacts.crit_config(n) for n in reversed(names)])
    if tier == 'thorough':
        for a in names:
            for b in names:
                if a != b and (a, b) not in pairs:
                    cfgs.append([lpfacts.crit_config(a), lpfacts.crit_config(b)])
        import itertools
        for t in itertools.permutations(names, 3):
            cfgs.append([lpfacts.crit_config(x) for x in t])
    return cfgs


def run(rep, repo, tier):
    for k, v in RULES.items():
        rep.rule(k, v)
    from ..defined import check_defined
    check_defined(rep, repo, 'C04.R2', [repo.method('Solver', '__init__'), repo.method('Solver', 'solve'), repo.method('Solver', 'get_results_short'), repo.method('Solver', 'get_results_long')], 'solver path')
    rep.assumptions += ['A3 PuLP: prob.objective = e / prob += e replace the objective; solve() reads prob.sense', 'A6 CBC exact',
                        'NOT decided: a rounded varValue (e.g. 2.9999) making the freeze cut the optimum']
    for crit in configs(tier):
        for pc, stab in ([(False, False)] if len(crit) > 2 or tier == 'quick' else [(False, False), (True, True)]):
            r = lpfacts.get_run(repo, pc, stab, crit)
            check_run(rep, r, crit)
            rep.count('specialisations')
    r0 = lpfacts.get_run(repo, False, False, [])
    check_nocrit(rep, r0)
    from .c16 import check_helper
    check_helper(rep, repo, repo.method('Options_parser', '_get_ordered_optimisations'), len(spec.CRITERIA), r1='C04.R5', r3='C04.R5', r6='C04.R5')
    # R3 (one dispatch per element, with that element's own arguments): a criterion given without optional arguments must not
    # inherit those of the one before it - the sequence would then optimise something else at that position
    from .c16 import check_extras_isolation
    check_extras_isolation(rep, repo, tier, 'C04.R3')
    # R4 (every criterion of the list is performed): the criterion loop is left early only after a failed solve - a criterion whose
    # rank range is empty performs no solve and must not end the run (solve/check typestate of C14.R1 on two such sequences)
    from .c14 import typestate_check
    typestate_check(rep, repo, 'C04.R4', [(False, False, [lpfacts.crit_config('GENEROUS', 1), lpfacts.crit_config('MAXSIZE')]),
                                          (False, False, [lpfacts.crit_config('GREEDY', 1), lpfacts.crit_config('MINCOST', 0)])])


def check_run(rep, r, crit):
    cfg = cfgname(crit)
    runw = r.repo.method('LP_Solver', 'run').where
    sense = lpfacts.sense_of(r)
    rep.check(sense in ('MAX', 'MIN'), 'C04.R2', runw, 'the problem sense is a known constant %s' % cfg, got=show(r.of('newprob')[0].eff.value) if r.of('newprob') else 'none',
              construct='problem sense')
    # R2: no store to prob.sense / objective accumulation / constraint removal
    probs = r.it.lp_problems
    for ev in r.events:
        e = ev.eff
        if ev.kind in ('store', 'augstore') and e.target[0] == 'attr' and e.target[1] in probs:
            if e.target[2] == 'sense':
                rep.fail('C04.R2', ev.where, 'the sense of the shared problem is never changed %s' % cfg, got='%s = %s' % (show(e.target), show(e.value)),
                         want='constant sense', construct='prob.sense reassigned', loc=ev.loc)
            elif e.target[2] == 'objective' and ev.kind == 'augstore':
                rep.fail('C04.R2', ev.where, 'the objective is replaced, not accumulated %s' % cfg, got='objective %s= ...' % e.op, construct='objective accumulated', loc=ev.loc)
            elif e.target[2] == 'constraints':
                rep.fail('C04.R2', ev.where, 'constraints are only ever added %s' % cfg, got=show(e.target), construct='constraints replaced', loc=ev.loc)
    for e, ctx in iter_effects(r.effs):
        if e.kind == 'expr' and contains(e.term, lambda x: x[0] == 'attr' and x[2] in ('pop', 'clear', 'popitem') and x[1][0] == 'attr' and x[1][2] == 'constraints'):
            rep.fail('C04.R2', e.where, 'constraints are only ever added %s' % cfg, got=show(e.term)[:100], construct='constraint removed', loc=e.loc)
    nprob = len(r.of('newprob'))
    rep.check(nprob == 1, 'C04.R2', runw, 'a single LpProblem is used for all criteria %s' % cfg, got='%d problems' % nprob, want='1', construct='problem count')
    # R3 / R4: dispatch order
    solves = r.of('solve')
    seq = []
    # a plain solve outside the dispatch that can only be issued while NO solve has happened yet (no criterion had anything
    # to optimise) starts no chain and breaks none: it is exempt from the chain rules (typestate of C14.R1, with counters)
    from ..typestate import Walker
    from .c14 import optimal_terms
    tw = Walker(optimal_terms())
    tw.walk(r.effs, frozenset({('init', None)}))
    initial_only = [s for s in solves if tw.solve_states.get(id(s.eff), set()) <= {'init'}
                    and not [it for it in s.iters if it.value[0] == 'tuple' and is_enum_member(it.value[1][0])]]
    solves = [s for s in solves if s not in initial_only]
    for s in solves:
        top = [it for it in s.iters if it.value[0] == 'tuple' and is_enum_member(it.value[1][0])]
        if not top:
            rep.fail('C04.R4', s.where, 'every solve belongs to the dispatch of one element of optimisation_options %s' % cfg,
                     got='solve at %s outside the criterion loop' % s.loc, want='inside `for opt, extras in optimisation_options`', construct='solve outside dispatch in %s' % s.eff.func.qualname, loc=s.loc)
            continue
        seq.append((top[0].index, top[0].value[1][0][2]))
    want = [(i, c[0]) for i, c in enumerate(crit)]
    got_order = []
    for x in seq:
        if not got_order or got_order[-1] != x:
            got_order.append(x)
    rep.check(got_order == want, 'C04.R3', r.repo.method('LP_Solver', 'run_optimisations').where,
              'criteria are solved in list order, each exactly once %s' % cfg, got=[c for _, c in got_order], want=[c for _, c in want],
              construct='dispatch order %s -> %s' % ([c for _, c in want], [c for _, c in got_order]))
    lpfacts.lb_agreement(rep, r, 'C04.R6', cfg)
    # R1: freeze after each solve
    evs = r.events
    for s in solves:
        before = [e for e in evs if e.order < s.order and e.kind == 'setobj']
        if not before:
            rep.fail('C04.R1', s.where, 'an objective is set before the solve %s' % cfg, got='none', construct='solve without objective', loc=s.loc)
            continue
        p = before[-1]
        d = lpfacts.setobj_direction(r, p)
        if d is None:
            rep.inconclusive('C04.R1', p.where, 'the objective handed to the solve is +-(one objective variable) %s' % cfg, got=show(p.eff.expr)[:100], loc=p.loc)
            continue
        direction, var = d
        if [c for c in p.loops] != [c for c in s.loops]:
            rep.fail('C04.R1', s.where, 'objective and solve belong to the same step %s' % cfg, got='objective set at %s in a different loop context' % p.loc, construct='objective/solve context', loc=s.loc)
            continue
        nxt = [e for e in evs if e.order > s.order and e.kind in ('solve', 'setobj')]
        limit = nxt[0].order if nxt else 10 ** 9
        between = [e for e in evs if s.order < e.order < limit and e.kind == 'addc' and e.fam is not None and e.loops == s.loops]
        frz = [(e, lpfacts.is_freeze(e.fam)) for e in between]
        frz = [(e, f) for e, f in frz if f is not None and f[0] == var]
        want_op = '>=' if direction == 'MAX' else '<='
        if not frz:
            anyv = [e for e in between if var in lpfacts.obj_vars(e.fam)]
            rep.fail('C04.R1', s.where, 'the achieved value of %s is frozen after the solve %s' % (var, cfg),
                     got=anyv[0].fam.core() if anyv else 'no constraint on %s between this solve and the next objective' % var,
                     want='%s %s val(%s)' % (var, want_op, var), construct='freeze missing for %s' % direction, loc=s.loc)
            continue
        e, (v, op) = frz[0]
        rep.check(op == want_op, 'C04.R1', e.where, 'freeze direction matches the optimisation direction (%s) %s' % (direction, cfg),
                  got='%s %s val' % (var, op), want='%s %s val' % (var, want_op), construct='freeze %s after %s' % (op, direction), loc=e.loc)
        rep.check(not e.sym_ifs, 'C04.R1', e.where, 'the freeze is added on every path after the solve %s' % cfg, got=[show(c.cond) for c, _ in e.sym_ifs],
                  construct='conditional freeze', loc=e.loc)


def check_nocrit(rep, r):
    solves = r.of('solve')
    runw = r.repo.method('LP_Solver', 'run').where
    rep.check(len(solves) == 1 and not solves[0].sym_ifs and not solves[0].loops, 'C04.R4', runw,
              'with no criterion exactly one plain solve is issued', got='%d solves' % len(solves), want='1', construct='no-criterion solve count')
