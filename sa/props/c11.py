"""C11 -- printed statistics and listings describe the printed matching (DESIGN.md section 5, C11).

get_results is interpreted abstractly for the SHORT and for the LONG format with every Model helper inlined; the text it
returns on the Optimal path is reduced to a document (literal chunks and holes).  Every hole is brought to the canonical
aggregate algebra of sa/canon.py (sums, maxima, per-agent arrays, scatters; loops / comprehensions / built-ins / helper
extraction all normalise to the same form) and compared, modulo bound-variable names and commutativity, with a reference
written in that algebra from the property statement:

R1 each statistic line (matching, size, cost, cost_sq, degree, profile, max_lec_abs_diff, sum_lec_abs_diff) prints the
   reference aggregate of THE list of selected pairs;
R2 ids vs indices: arrays are indexed by 0-based indices of their own sort, labels print 1-based ids (subsumed by the
   equality with the reference; reported separately when only the kind differs);
R3 the short and the long format print the same statistic lines;
R4 the three listings have one line per student / project / lecturer, labelled with its id, carrying exactly the
   assignees scattered by their own index, and the occupancy / capacity / target of that agent;
R5 all of them are computed from one list: the pairs whose decision variable is set.

A hole that is in the closed algebra (only pure built-ins over the pair list and the model arrays) and differs from the
reference is a violation; a hole outside the algebra is inconclusive (exit 2), never a violation."""
import re

from ..terms import *
from ..absint import Interp, iter_effects
from ..loader import AnalysisError
from .. import lp, doc
from ..canon import canon, equiv, closed, BV, RANGE, replace, _eq, doc_term
from ..shapes import selection

RULES = {
    'C11.R1': 'every statistic line prints the reference aggregate (sum / max / scatter count) of the list of selected pairs',
    'C11.R3': 'the short and the long format print the same statistic lines, each exactly once',
    'C11.R4': 'listings: one line per agent of the sort, labelled with its id; assignees scattered by their own index; occupancy / capacity / target of the same agent',
    'C11.R5': 'every statistic and listing is computed from one list: the pairs whose decision variable is set',
}

M = lp.MODEL
PA = S('$PA')
STAT_LABELS = ['matching', 'size', 'cost', 'cost_sq', 'degree', 'profile', 'max_lec_abs_diff', 'sum_lec_abs_diff']
SECTIONS = {'Student_assignments': 'S', 'Project_assignments': 'P', 'Lecturer_assignments': 'L'}


def ACC(pre, entries):
    return ('accum', pre, tuple(entries), 'ref', 0)


def fs(*parts):
    out = []
    for p_ in parts:
        out.append(C(p_) if isinstance(p_, str) else p_)
    return ('fstr', tuple(out))


# ---- references (written from the property statement; PA = list of matched pairs) ----------------------------------------
def ref_matching_array(as_int=False):
    b = BV('p', PA)
    i = BV('i', RANGE(A(M, 'num_students')))
    if as_int:      # the same table kept as integers (project ids start at 1, so 0 still means unassigned)
        return ACC(('array', A(M, 'num_students'), i, C(0)), (('setidx', A(b, 'student_index'), A(b, 'projectID'), ((b, TRUE),)),))
    return ACC(('array', A(M, 'num_students'), i, C('0')), (('setidx', A(b, 'student_index'), fs(A(b, 'projectID')), ((b, TRUE),)),))


def ref_count(size_attr, key):
    b = BV('p', PA)
    i = BV('i', RANGE(A(M, size_attr)))
    return ACC(('array', A(M, size_attr), i, C(0)), (('addidx', A(b, key), C(1), ((b, TRUE),)),))


def ref_sum(attr, square=False, guard_attr=None):
    b = BV('p', PA)
    v = A(b, attr)
    g = CALL(S('hasattr'), [b, C(guard_attr)]) if guard_attr else TRUE
    return ('sum', ((b, g),), BIN('Mult', v, v) if square else v)


def ref_max_rank():
    rows = BV('r', A(M, 'pairs'))
    p = BV('p', rows)
    return ('max0', ((rows, TRUE), (p, TRUE)), A(p, 'rank_student'))


def ref_profile():
    b = BV('p', PA)
    n = ref_max_rank()
    i = BV('i', RANGE(n))
    return ACC(('array', n, i, C(0)), (('addidx', BIN('Sub', A(b, 'rank_student'), C(1)), C(1), ((b, TRUE),)),))


def ref_absdiff(k):
    cnt = ref_count('num_lecturers', 'lecturer_index')
    c, t = I(cnt, k), I(A(M, 'lec_targets'), k)
    return ('max2', BIN('Sub', c, t), BIN('Sub', t, c))


def references():
    b = BV('p', PA)
    k1 = BV('k', RANGE(A(M, 'num_lecturers')))
    k2 = BV('k', RANGE(A(M, 'num_lecturers')))
    k0 = BV('i', RANGE(A(M, 'num_students')))
    marr = ref_matching_array()
    marri = ref_matching_array(True)
    k0i = BV('i', RANGE(A(M, 'num_students')))
    return {
        'matching': [('sjoin', C(' '), marr)],
        'size': [CALL(S('len'), [PA]), BIN('Sub', A(M, 'num_students'), CALL(A(marr, 'count'), [C('0')])), ('sum', ((b, TRUE),), C(1)),
                 ('sum', ((k0, CMP('NotEq', I(marr, k0), C('0'))),), C(1)), CALL(S('len'), [('comp', ((k0, CMP('NotEq', I(marr, k0), C('0'))),), k0)]),
                 ('distinct', ((b, TRUE),), A(b, 'student_index')),
                 BIN('Sub', A(M, 'num_students'), CALL(A(marri, 'count'), [C(0)])), ('sum', ((k0i, CMP('NotEq', I(marri, k0i), C(0))),), C(1)),
                 CALL(S('len'), [('comp', ((k0i, CMP('NotEq', I(marri, k0i), C(0))),), k0i)])],
        'cost': [('tuple', (ref_sum('rank_student'), ref_sum('rank_lecturer', guard_attr='rank_lecturer')))],
        'cost_sq': [('tuple', (ref_sum('rank_student', True), ref_sum('rank_lecturer', True, 'rank_lecturer')))],
        'degree': [('max0', ((b, TRUE),), A(b, 'rank_student'))],
        'max_lec_abs_diff': [('max0', ((k1, TRUE),), ref_absdiff(k1))],
        'sum_lec_abs_diff': [('sum', ((k2, TRUE),), ref_absdiff(k2))],
    }


def with_pa(t, pa):
    return canon(replace(t, PA, pa))


# ---- extraction ----------------------------------------------------------------------------------------------------------
def results_doc(repo, fmt):
    f = repo.method('Model', 'get_results')
    it = Interp(repo)
    env = {f.params[1]: A(S('Output_type'), fmt)}
    for p_ in f.params[2:]:
        env[p_] = S(p_)
    effs, rv = it.run(f, env, selfterm=M)
    alts = []
    def split(t, conds):
        if t[0] == 'ite':
            split(t[2], conds + [t[1]])
            split(t[3], conds + [NOT(t[1])])
        elif t != NONE:
            alts.append((conds, t))
    split(rv, [])
    full = []
    full_terms = []
    for c, t in alts:
        items = doc.doc_of(t)
        if has_text(items, 'matching: '):
            full.append(items)
            full_terms.append(t)
    if len(full) != 1:
        raise Unknown('%d result texts carry the matching line' % len(full))
    # arguments handed to the statistic helpers
    from ..absint import iter_effects
    args = []
    for e, ctx in iter_effects(effs):
        not_stat = {repo.actual('Model', x) for x in ('_get_pair_assignments', '_get_pair_assignments_with_none', '_get_profile_string', '_get_max_rank')}
        # a statistic / listing helper: a private Model method that takes the list of matched pairs as its first argument
        if e.kind == 'call' and e.target.cls == 'Model' and e.target.name.startswith('_') and not e.target.name.startswith('__') and e.target.name not in not_stat and e.args \
                and len(e.target.params) >= 2:
            # ... and whose result is printed: it occurs in the result text (a helper used only in a test, or inside the
            # stability check, is not a statistic)
            printed = isinstance(e.ret, tuple) and contains(full_terms[0], lambda x: x == e.ret) \
                and not contains(e.args[0], lambda x: x[0] == 'const' and isinstance(x[1], str) and len(x[1]) > 1)      # (a helper fed with text lines assembles the text)
            # ... called from get_results itself or from a function that renders the whole text (not from inside another helper)
            def renders_text(c):
                return isinstance(getattr(c, 'ret', None), tuple) and contains(c.ret, lambda x: x[0] == 'const' and isinstance(x[1], str) and 'matching: ' in x[1])
            nested = any(c.kind == 'call' and getattr(c.target, 'cls', None) == 'Model' and not renders_text(c) for c, br in ctx)
            if printed and not nested:
                args.append((e.target.name, e.args[0]))
    return f, full[0], args


def has_text(items, text):
    for it_ in items:
        if isinstance(it_, doc.Lit) and text in it_.text:
            return True
        if isinstance(it_, doc.Alt) and (has_text(it_.a, text) or has_text(it_.b, text)):
            return True
    return False


def flatten_alts(items):
    """header Alt (stability on/off) -> take items of both branches when they only differ by the stability line; here the
    statistics follow the Alt, so just splice the branch without stability"""
    out = []
    for it_ in items:
        if isinstance(it_, doc.Alt):
            out += flatten_alts(it_.b)
        else:
            out.append(it_)
    return doc.merge(out)


def split_lines(items):
    """-> list of lines, each a list of items (Lit without newline / Hole / Rep)"""
    lines, cur = [], []
    for it_ in items:
        if isinstance(it_, doc.Lit):
            segs = it_.text.split('\n')
            for k, seg in enumerate(segs):
                if seg:
                    cur.append(doc.Lit(seg))
                if k < len(segs) - 1:
                    lines.append(cur)
                    cur = []
        else:
            cur.append(it_)
    if cur:
        lines.append(cur)
    return lines


def stat_lines(items):
    """-> ({label: [value items]}, {section: items after the header line}, duplicates)"""
    stats, dups, sections = {}, [], {}
    lines = split_lines(items)
    for n, ln in enumerate(lines):
        if not ln or not isinstance(ln[0], doc.Lit):
            continue
        m = re.match(r'^(\w+): ?(.*)$', ln[0].text, re.S)
        if m and m.group(1) in STAT_LABELS:
            rest = ([doc.Lit(m.group(2))] if m.group(2) else []) + ln[1:]
            if m.group(1) in stats:
                dups.append(m.group(1))
            stats[m.group(1)] = rest
        m2 = re.match(r'^(\w+):$', ln[0].text.strip())
        if m2 and m2.group(1) in SECTIONS and len(ln) == 1:
            # the listing is the next line-item that is a hole (joined block)
            nxt = lines[n + 1] if n + 1 < len(lines) else []
            sections[m2.group(1)] = nxt
    return stats, sections, dups


# ---- main ------------------------------------------------------------------------------------------------------------------
def run(rep, repo, tier):
    for k, v in RULES.items():
        rep.rule(k, v)
    rep.assumptions += ['project ids are >= 1 (so "0" in the matching line means unassigned) and student i has studentID i+1, student_index i (decided by C10)',
                        'the reported pairs form a matching: at most one pair per student (C01)']
    from ..defined import check_defined
    check_defined(rep, repo, 'C11.R3', [repo.method('Model', 'get_results')], 'result rendering')
    # the model whose matching is described is the one read for THIS solver object (no instance kept from an earlier one)
    check_defined(rep, repo, 'C11.R5', [repo.method('Solver', '__init__')], 'model construction')
    from ..shapes import scatter_size_problems
    gr_ = repo.method('Model', 'get_results')
    try:
        effs_, rv_ = Interp(repo).run(gr_, {p_: S(p_) for p_ in gr_.params[1:]}, selfterm=M)
        probs_ = scatter_size_problems(rv_)
        seen_ = set()
        for e_, _c in iter_effects(effs_):
            for v_ in e_.__dict__.values():
                if isinstance(v_, tuple) and v_ and isinstance(v_[0], str):
                    probs_ += [p_ for p_ in scatter_size_problems(v_, seen_) if p_ not in probs_]
        rep.check(not probs_, 'C11.R4', gr_.where, 'every per-agent tally or listing has one slot per agent of the sort it is keyed by', got=probs_[:3] or 'sizes agree',
                  want='[..] * num_<sort of the key>', construct='per-agent list of the wrong size')
    except Unknown:
        pass                                     # the renderer itself is judged (and reported) below
    from ..lints import falls_off_the_end
    for cls_, name_ in (('Solver', 'get_results'), ('Solver', 'get_results_short'), ('Solver', 'get_results_long'), ('Model', 'get_results')):
        g = repo.method(cls_, name_, required=False)
        if g is not None:
            rep.check(not falls_off_the_end(g), 'C11.R3', g.where, '%s.%s hands its text back on every path' % (cls_, name_), got='a path reaches the end of the function without `return <text>`: the caller prints None',
                      want='return on every path', construct='%s.%s returns nothing on some path' % (cls_, name_))
    # R5: the list
    fpa = repo.method('Model', '_get_pair_assignments')
    try:
        _, pa_rv = Interp(repo).run(fpa, {}, selfterm=M)
    except Unknown as u:
        rep.inconclusive('C11.R5', fpa.where, 'read-back inside the interpreted fragment', got=str(u))
        return
    if selection(pa_rv) is None:
        from ..shapes import returns_as_called
        called_ = [r_ for r_ in returns_as_called(repo, fpa, M) if selection(r_) is not None]
        if called_:
            pa_rv = called_[0]
    sel = selection(pa_rv)
    if sel is None:
        rep.inconclusive('C11.R5', fpa.where, 'the list of matched pairs is a selection from all pairs', got=show(pa_rv)[:120])
        return
    pa_c = canon(pa_rv)
    rep.ok('C11.R5', fpa.where, 'matched pairs = selection from all pairs by the decision variable (guard decided by C01.R5)', got=show(sel[1])[:80])
    docs = {}
    all_args = []
    for fmt in ('SHORT', 'LONG'):
        try:
            f, items, args = results_doc(repo, fmt)
            all_args += args
        except Unknown as u:
            rep.inconclusive('C11.R1', 'matchingproblems/solver/model.py::Model.get_results', 'get_results(%s) inside the interpreted fragment' % fmt, got=str(u))
            return
        docs[fmt] = stat_lines(flatten_alts(items))
    f = repo.method('Model', 'get_results')
    refs = references()
    # R5: one list, of an accepted form
    distinct = []
    for name, a in all_args:
        if not any(a == d for d in distinct):
            distinct.append(a)
    if len(distinct) != 1:
        rep.fail('C11.R5', f.where, 'all statistic and listing helpers are given the same list of matched pairs', got=[show(d)[:80] for d in distinct][:3], want='one list',
                 construct='several pair lists' if distinct else 'no helper call found')
        if not distinct:
            return
    else:
        rep.ok('C11.R5', f.where, 'all %d helper calls of get_results receive one list' % len(all_args), got=show(distinct[0])[:120])
    pa_c = pair_list_form(rep, repo, f, distinct[0], pa_c)
    if pa_c is None:
        return
    # R1 / R3 per label
    for label in STAT_LABELS:
        vals = {}
        for fmt in ('SHORT', 'LONG'):
            stats, sections, dups = docs[fmt]
            if label not in stats:
                rep.fail('C11.R3', f.where, 'the %s format prints the line %r' % (fmt.lower(), label), got='missing', construct='%s line missing in %s' % (label, fmt))
                continue
            if label in dups:
                rep.fail('C11.R3', f.where, 'the %s format prints %r once' % (fmt.lower(), label), got='repeated', construct='%s line repeated' % label)
            vals[fmt] = stats[label]
        if len(vals) < 2:
            continue
        cs = {fmt: canon(doc_term(v)) for fmt, v in vals.items()}
        same = equiv(cs['SHORT'], cs['LONG'])
        rep.check(same, 'C11.R3', f.where, 'line %r is computed identically in both formats' % label, got='equal canonical forms' if same else 'short: %s | long: %s' % (show(cs['SHORT'])[:150], show(cs['LONG'])[:150]),
                  construct='%s differs between formats' % label)
        check_stat(rep, repo, f, label, cs['LONG'], refs, pa_c)
    # R4 listings (long format)
    stats, sections, dups = docs['LONG']
    for sec, sort in SECTIONS.items():
        if sec not in sections:
            rep.fail('C11.R4', f.where, 'the long format has the %s listing' % sec, got='missing', construct='%s missing' % sec)
            continue
        check_listing(rep, repo, f, sec, sort, sections[sec], pa_c)
    rep.count('statistic_lines', len(STAT_LABELS) * 2)


def pair_list_form(rep, repo, f, actual, pa_sel):
    """the list handed to the helpers must denote the matched pairs: the selection itself, or the per-student list with its
    None entries filtered out.  Returns the canonical term the references are instantiated with."""
    c = canon(actual)
    if equiv(c, pa_sel):
        return c
    wn = repo.classes['Model'].get('_get_pair_assignments_with_none')
    if wn is not None and c[0] == 'comp' and len(c[1]) >= 1:
        try:
            _, wn_rv = Interp(repo).run(wn, {}, selfterm=M)
            wn_c = canon(wn_rv)
            # [p for p in WITH_NONE if p is not None]: after fusion the last binder's value is the per-row selection
            from ..shapes import notnone_forms
            raw = actual
            if raw[0] == 'comp' and len(raw[1]) == 1:
                b, g = raw[1][0]
                if raw[2] == b and g in notnone_forms(b) and equiv(canon(b[3]), wn_c):
                    rep.ok('C11.R5', f.where, 'the list is the per-student read-back with the unassigned (None) entries dropped', got=show(raw)[:120])
                    return c
        except Unknown:
            pass
    rep.fail('C11.R5', f.where, 'the list handed to the helpers is the list of pairs whose decision variable is set', got=show(c)[:200], want=show(pa_sel)[:200], construct='pair list')
    return None


def unwrap_single(c):
    """F"{x}" -> x"""
    while c[0] == 'fstr' and len(c[1]) == 1 and not (c[1][0][0] == 'const' and isinstance(c[1][0][1], str)):
        c = c[1][0]
    return c


def check_stat(rep, repo, f, label, c, refs, pa_c):
    rule = 'C11.R1'
    if label == 'profile':
        prof = ref_profile()
        wants = []
        for sep in (C(None), C('')):
            e = BV('e', prof)
            wants.append(with_pa(fs('< ', ('srep', ((e, TRUE),), fs(e, ' '), sep), '>'), pa_c))
        if any(equiv(c, w) for w in wants):
            rep.ok(rule, f.where, "profile = '< ' + one counter per rank (each followed by a blank) + '>'", got=show(c)[:160])
            return
        bad = closed(c)
        if bad is not None:
            rep.inconclusive(rule, f.where, 'the profile line is inside the aggregate algebra', got=bad + ' | ' + show(c)[:700])
            return
        rep.fail(rule, f.where, "profile: '< ' + one counter per rank 1..max rank, each followed by a blank, + '>' ; counter r-1 = number of matched pairs of student rank r",
                 got=show(c)[:300], want=show(wants[0])[:300], construct='profile line')
        return
    c = unwrap_single(c)
    wants = [with_pa(r, pa_c) for r in refs[label]]
    if any(equiv(c, w) for w in wants):
        rep.ok(rule, f.where, '%s = reference aggregate' % label, got=show(c)[:160])
        return
    bad = closed(c)
    if bad is not None:
        rep.inconclusive(rule, f.where, 'the value printed as %r is inside the aggregate algebra' % label, got=bad + ': ' + show(c)[:120])
        return
    desc = {'matching': "student i's project id at position i, '0' when unassigned, joined by blanks",
            'size': 'number of matched pairs', 'cost': '(sum of student ranks, sum of lecturer ranks where present)',
            'cost_sq': '(sum of squared student ranks, sum of squared lecturer ranks where present)', 'degree': 'largest student rank of a matched pair, 0 when empty',
            'max_lec_abs_diff': 'max over lecturers of |assigned - target|', 'sum_lec_abs_diff': 'sum over lecturers of |assigned - target|'}[label]
    rep.fail(rule, f.where, '%s: %s' % (label, desc), got=show(c)[:300], want=show(wants[0])[:300], construct='%s aggregate' % label)


# ---- listings ----------------------------------------------------------------------------------------------------------------
SORT = {'S': ('num_students', 'student_index'), 'P': ('num_projects', 'project_index'), 'L': ('num_lecturers', 'lecturer_index')}


def ref_assignee_strings(sort):
    b = BV('p', PA)
    n, key = SORT[sort]
    i = BV('i', RANGE(A(M, n)))
    val = fs('s_', A(b, 'studentID'), ' ') if sort == 'P' else fs('s_', A(b, 'studentID'), ' (p_', A(b, 'projectID'), ') ')
    return ACC(('array', A(M, n), i, C('')), (('addidx', A(b, key), val, ((b, TRUE),)),))


def ref_line(sort, j, noassign, pa_c, literal_zero=False):
    n, key = SORT[sort]
    cnt = C('0') if literal_zero else I(ref_count(n, key), j)
    who = C('no assignment ') if noassign else I(ref_assignee_strings(sort), j)
    if sort == 'P':
        t = fs('p_', BIN('Add', j, C(1)), ' (l_', I(A(M, 'proj_lecturers'), j), '): ', who, '    ', cnt, '/', I(A(M, 'proj_upper_quotas'), j), '\n')
    else:
        t = fs('l_', BIN('Add', j, C(1)), ': ', who, '    ', cnt, '/', I(A(M, 'lec_upper_quotas'), j), ' (', I(A(M, 'lec_targets'), j), ')\n')
    return with_pa(t, pa_c)


def resolve(t, decide):
    """replace every ite whose condition `decide` can settle by the chosen branch"""
    def f(x):
        if x[0] == 'ite':
            d = decide(x[1])
            if d is True:
                return x[2]
            if d is False:
                return x[3]
        return None
    prev = None
    while prev != t:
        prev = t
        t = subst_keep(t, f)
    return t


def subst_keep(t, f):
    from ..canon import rewrite
    return rewrite(t, f)


def check_listing(rep, repo, f, sec, sort, line_items, pa_c):
    rule = 'C11.R4'
    name = {'S': 'student', 'P': 'project', 'L': 'lecturer'}[sort]
    # the block is ''.join(lines) or a string repetition
    if len(line_items) != 1 or not isinstance(line_items[0], (doc.Hole, doc.Rep)):
        rep.inconclusive(rule, f.where, 'the %s listing is one joined block of lines' % name, got=repr(line_items)[:160])
        return
    it_ = line_items[0]
    if isinstance(it_, doc.Hole):
        if it_.sep not in ('', None):
            rep.fail(rule, f.where, 'the lines of the %s listing are concatenated as they are' % name, got='joined by %r' % it_.sep, construct='%s listing separator' % name)
            return
        arr = canon(it_.term)
    else:
        arr = canon(('comp', tuple(it_.chain), doc_term(it_.items)))
    arr = unwrap_single(arr)
    if arr[0] == 'sjoin' and arr[1] == C(''):
        arr = arr[2]
    n_attr, key = SORT[sort]
    N = A(M, n_attr)
    bad = closed(arr)
    if sort == 'S':
        # selection form: accum(array(n, i, na(i)); setidx[key] line(p) {PA})
        sel = student_sel(arr)
        if sel is None:
            filt = arr[0] == 'comp' and [g for b_, g in arr[1] if g != TRUE]
            if filt:
                rep.fail(rule, f.where, 'the student listing has one line per student (unassigned students included)', got='lines are produced for a filtered list: %s' % show(filt[0])[:120],
                         want='num_students lines', construct='student listing over a filtered list')
            elif bad is not None:
                # necessary condition decided by partial evaluation: with the EMPTY matching every student still gets a line
                emp = canon(without_pairs(arr, pa_c))
                if emp in (('list', ()), ('fstr', ()), C('')) or (emp[0] == 'accum' and emp[1] == ('list', ()) and not emp[2]):
                    rep.fail(rule, f.where, 'the student listing has one line per student (unassigned students included)',
                             got='every line is produced while walking the matched pairs: with the empty matching the listing is empty, and students after the last matched one get no line',
                             want='num_students lines', construct='student listing driven by the matched pairs only')
                else:
                    rep.inconclusive(rule, f.where, 'the student listing is inside the aggregate algebra', got=bad + ' | with the empty matching: ' + show(emp)[:300])
            else:
                rep.fail(rule, f.where, 'the student listing has one line per student: the line of the student\'s pair placed at the student\'s own index, "no assignment" elsewhere',
                         got=show(arr)[:300], want='lines[pair.student_index] = s_<id>: p_<pid> (l_<lid>) ; s_<i+1> no assignment otherwise', construct='student listing shape')
            return
        b = BV('p', PA)
        i = BV('i', RANGE(N))
        want = with_pa(ACC(('array', N, i, fs('s_', BIN('Add', i, C(1)), ' no assignment\n')),
                           (('setidx', A(b, 'student_index'), fs('s_', A(b, 'studentID'), ': p_', A(b, 'projectID'), ' (l_', A(b, 'lecturerID'), ') \n'), ((b, TRUE),)),)), pa_c)
        rep.check(equiv(sel, want), rule, f.where, 'student listing: one line per student i (num_students lines), s_<i+1> no assignment unless a matched pair has student_index i, then s_<studentID>: p_<projectID> (l_<lecturerID>)',
                  got=show(sel)[:300], want=show(want)[:300], construct='student listing')
        return
    if arr[0] != 'array':
        if bad is not None:
            rep.inconclusive(rule, f.where, 'the %s listing is inside the aggregate algebra' % name, got=bad)
        else:
            rep.fail(rule, f.where, 'the %s listing has exactly one line per %s' % (name, name), got=show(arr)[:300], want='one line for each index in range(%s)' % n_attr, construct='%s listing shape' % name)
        return
    rep.check(equiv(arr[1], N), rule, f.where, 'the %s listing has %s lines' % (name, n_attr), got=show(arr[1]), want=n_attr, construct='%s listing length' % name)
    j = arr[2]
    acs = with_pa(I(ref_assignee_strings(sort), j), pa_c)
    cnt = with_pa(I(ref_count(n_attr, key), j), pa_c)
    unknown_conds = []
    for noassign in (True, False):
        def decide(c, noassign=noassign):
            neg = False
            while c[0] == 'not':
                neg, c = not neg, c[1]
            r = None
            if c[0] == 'cmp' and c[1] in ('Eq', 'NotEq', 'Gt', 'Lt', 'GtE', 'LtE'):
                x, y = c[2], c[3]
                for x_, y_ in ((x, y), (y, x)):
                    if equiv(x_, acs) and y_ in (C(''), ('fstr', ())):
                        r = {'Eq': noassign, 'NotEq': not noassign}.get(c[1])
                    elif equiv(x_, cnt) and y_ == C(0):
                        op = c[1] if x_ is x else {'Gt': 'Lt', 'Lt': 'Gt', 'GtE': 'LtE', 'LtE': 'GtE'}.get(c[1], c[1])
                        r = {'Eq': noassign, 'NotEq': not noassign, 'Gt': not noassign, 'LtE': noassign, 'GtE': True, 'Lt': False}.get(op)
                    elif equiv(x_, cnt) and y_ == C(1):
                        op = c[1] if x_ is x else {'Gt': 'Lt', 'Lt': 'Gt', 'GtE': 'LtE', 'LtE': 'GtE'}.get(c[1], c[1])
                        r = {'GtE': not noassign, 'Lt': noassign}.get(op)
                    if r is not None:
                        break
            elif equiv(c, acs) or equiv(c, cnt):
                r = not noassign
            elif is_own_group(c, key, j):
                r = not noassign                  # truthiness of the list of assignees of agent j
            if r is None:
                unknown_conds.append(c)
                return None
            return (not r) if neg else r
        def or_default(x):
            # `text or 'placeholder'` on strings: the placeholder exactly when the text is empty
            if x[0] == 'bool' and x[1] == 'or' and len(x[2]) == 2 and ((x[2][1][0] == 'const' and isinstance(x[2][1][1], str)) or x[2][1][0] == 'fstr'):
                return ('ite', x[2][0], x[2][0], x[2][1])
            return None
        from ..canon import rewrite as _rw
        line = canon(resolve(_rw(arr[3], or_default), decide))
        if not noassign:
            # sep.join(labels) + sep on a NON-EMPTY group (this is the "with assignees" case) = every label followed by sep
            def close_join(x):
                if x[0] == 'fstr':
                    ps = list(x[1])
                    for k_ in range(len(ps) - 1):
                        a_, b_ = ps[k_], ps[k_ + 1]
                        if a_[0] == 'srep' and a_[3][0] == 'const' and isinstance(a_[3][1], str) and a_[3][1] and b_[0] == 'const' and isinstance(b_[1], str) and b_[1].startswith(a_[3][1]):
                            sep_ = a_[3][1]
                            el_ = a_[2]
                            el2 = ('fstr', (tuple(el_[1]) if el_[0] == 'fstr' else (el_,)) + (C(sep_),))
                            ps[k_] = ('srep', a_[1], el2, C(''))
                            ps[k_ + 1] = C(b_[1][len(sep_):])
                            return ('fstr', tuple(p_ for p_ in ps if p_ != C('')))
                return None
            line = canon(_rw(line, close_join))
        want = ref_line(sort, j, noassign, pa_c)
        case = 'without assignees' if noassign else 'with assignees'
        if equiv(line, want) or (noassign and equiv(line, ref_line(sort, j, True, pa_c, literal_zero=True))):
            rep.ok(rule, f.where, '%s line %s = reference' % (name, case), got=show(line)[:200])
            continue
        if noassign:
            # the empty assignee string may be printed in front of / instead of nothing: ''  -- and the count may be printed as the literal 0
            pass
        if contains(line, lambda x: x[0] == 'ite') and unknown_conds:
            rep.inconclusive(rule, f.where, 'conditions of the %s line are tests for "nobody assigned"' % name, got=show(unknown_conds[0])[:120])
            return
        if bad is not None:
            rep.inconclusive(rule, f.where, 'the %s listing is inside the aggregate algebra' % name, got=bad + ' | line: ' + show(line)[:600] + ' | want: ' + show(want)[:600])
            return
        rep.fail(rule, f.where, '%s line %s: label = index + 1, assignees = pairs scattered by their own %s, occupancy / capacity%s of the same %s' % (name, case, key, ' / target' if sort == 'L' else '', name),
                 got=show(line)[:400], want=show(want)[:400], construct='%s line %s' % (name, case))


def without_pairs(t, pa):
    """the term with the list of matched pairs taken to be empty: accumulations, comprehensions, sums and repetitions that
    range over it contribute nothing"""
    pa_binders = [b for b, g in pa[1]] if pa[0] == 'comp' else []
    def over_pa(chain):
        if any(b[3] == pa or equiv(b[3], pa) for b, g in chain):
            return True
        bs = [b for b, g in chain]
        return bool(pa_binders) and all(b in bs for b in pa_binders)      # the list's own comprehension, fused into the chain
    def f(x):
        if x[0] == 'accum':
            ents = tuple(e for e in x[2] if not over_pa(e[3]))
            if len(ents) != len(x[2]):
                return (x[0], x[1], ents) + tuple(x[3:])
        if x[0] == 'comp' and over_pa(x[1]):
            return ('list', ())
        if x[0] == 'sum' and over_pa(x[1]):
            return C(0)
        if x[0] == 'srep' and over_pa(x[1]):
            return C('')
        return None
    from ..canon import rewrite
    return rewrite(t, f)


def is_own_group(c, key, j):
    """c == GROUPS[j] (or len of it) where GROUPS collects the matched pairs by their own <key>"""
    from ..canon import group_elem
    if c[0] == 'call' and c[1] == S('len') and len(c[2]) == 1:
        c = c[2][0]
    ge = group_elem(c)
    if ge is None:
        return False
    ch, k, val, jj = ge
    b = ch[-1][0]
    # (what is collected per assignee - the pair, or a label made from it - does not matter for emptiness or length)
    return jj == j and k == A(b, key)


def student_sel(arr):
    """canonical student listing -> accum(array(n, i, init(i)); setidx entries) or None"""
    if arr[0] == 'accum' and arr[1][0] == 'array' and all(e[0] == 'setidx' for e in arr[2]):
        return arr
    if arr[0] == 'array':
        n, i, v = arr[1], arr[2], arr[3]
        if v[0] == 'ite' and v[1][0] == 'cmp' and v[1][1] in ('In', 'NotIn') and v[1][2] == i:
            # lines[i] = F(D[i]) if i in D else G(i)   with D = {key(p): val(p)} filled pair by pair (last write wins, like setidx)
            D = v[1][3]
            a, b = (v[2], v[3]) if v[1][1] == 'In' else (v[3], v[2])
            if D[0] == 'accum' and D[1] == ('dict', ()) and len(D[2]) == 1 and D[2][0][0] == 'setidx' and not contains(b, lambda x: x == D):
                op, key, val, ch = D[2][0]
                from ..canon import replace
                line = replace(a, I(D, i), val)
                if not contains(line, lambda x: x == D):
                    return ACC(('array', n, i, b), (('setidx', key, canon(line), ch),))
        if v[0] == 'ite':
            # lines[i] = G(i) if D.get(i) is None else F(D.get(i))   with D = {key(p): val(p) for p in pairs}
            c, a, b = v[1], v[2], v[3]
            neg = False
            while c[0] == 'not':
                neg, c = not neg, c[1]
            if c[0] == 'cmp' and c[1] in ('Is', 'Eq', 'IsNot', 'NotEq') and c[3] == NONE and c[2][0] == 'call' and c[2][1][0] == 'attr' and c[2][1][2] == 'get' \
                    and tuple(c[2][2]) == (i,) and not (len(c[2]) > 3 and c[2][3]):
                G, D = c[2], c[2][1][1]
                if (c[1] in ('IsNot', 'NotEq')) != neg:
                    a, b = b, a
                # now: a when absent, b when present
                ent = None
                if D[0] == 'dictcomp':
                    ent = (D[2], D[3], D[1])
                elif D[0] == 'accum' and D[1] == ('dict', ()) and len(D[2]) == 1 and D[2][0][0] == 'setidx':
                    ent = (D[2][0][1], D[2][0][2], D[2][0][3])
                if ent is not None and not contains(a, lambda x: x == D):
                    from ..canon import replace
                    line = replace(b, G, ent[1])
                    if not contains(line, lambda x: x == D):
                        return canon(ACC(('array', n, i, a), (('setidx', ent[0], canon(line), ent[2]),)))
        if v[0] == 'ite':
            c, a, b = v[1], v[2], v[3]
            neg = False
            while c[0] == 'not':
                neg, c = not neg, c[1]
            slot = None
            if c[0] == 'cmp' and c[1] in ('Eq', 'NotEq') and C('') in (c[2], c[3]):
                slot = c[2] if c[3] == C('') else c[3]
                if c[1] == 'NotEq':
                    neg = not neg
            elif c[0] == 'idx':
                slot, neg = c, not neg
            if slot is None:
                return None
            if neg:
                a, b = b, a
            # now: ite(slot == '', a, b) with b == slot
            if b != slot or slot[0] != 'idx' or slot[2] != i:
                return None
            X = slot[1]
            if X[0] == 'accum' and X[1][0] == 'array' and X[1][3] == C('') and all(e[0] == 'setidx' and nonempty(e[2]) for e in X[2]):
                return ACC(('array', n, i, a), X[2])
    return None


def nonempty(v):
    """a string value that is never '' (starts with a literal chunk)"""
    return v[0] == 'fstr' and any(p_[0] == 'const' and isinstance(p_[1], str) and p_[1] for p_ in v[1])
