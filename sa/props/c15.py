"""C15 -- the generator accepts every documented argument set and cleanly rejects invalid ones (DESIGN.md section 5, C15)."""
import ast

from ..terms import *
from ..absint import Interp, iter_effects
from ..cfg import CFG
from ..loader import AnalysisError
from ..optparse_facts import argparse_table, argparse_alias
from .. import spec

RULES = {
    'C15.R1': 'argparse table: every documented flag exists with its dest, type and action; absent options are delivered as a sentinel no user input can produce (None, or False for store_true)',
    'C15.R2': 'required / banned tables per problem type equal the documented ones; the "was it given?" test compares with the option\'s own default',
    'C15.R3': 'None-ness per problem type: no ordering / arithmetic use of a possibly-absent value on any path an accepted argument set takes (option checks and instance generation)',
    'C15.R4': 'every documented bound is enforced by a guard that ends in parser.error, for each problem type it applies to',
    'C15.R6': 'an accepted run cannot fail numerically: the popularity weights never divide by n - 1 when a single agent can be ranked (n2 = 1 is a legal value)',
    'C15.R7': 'every parse starts from scratch: no function of the option parser accumulates into a default argument (a table built in one call must not be seen by the next)',
    'C15.R5': 'nothing is written before the argument set is accepted: parse() dominates every call that can create a directory or open a file for writing',
}

TYPES = {'HA': 'ha', 'SM': 'sm', 'HR': 'hr', 'SPA': 'spa'}
ARGS = S('args')
# which documented bounds apply to which problem type (lecturer and n3 parameters exist only for SPA; SM has no n2/uq/lq of its own)
APPLIES = {
    'n2 >= 1': ('HA', 'HR', 'SPA'), 'n3 >= 1': ('SPA',), 'uq >= n2': ('HA', 'HR', 'SPA'), 'lq <= uq': ('HA', 'HR', 'SPA'),
    'lt <= luq': ('SPA',), 'llq <= lt': ('SPA',), 't2 >= 0': ('SM', 'HR', 'SPA'), 't2 <= 1': ('SM', 'HR', 'SPA'),
}

NONE_, FALSE_, TRUE_, NUM, STR = 'None', 'False', 'True', 'Num', 'Str'


class Absval:
    """Abstract evaluation of terms over original option values: sets of tags."""
    def __init__(self, table, state):
        self.table = table          # dest -> ArgSpec
        self.state = state          # dest -> frozenset of tags
        self.errors = []

    def val(self, t, st=None):
        st = self.state if st is None else st
        k = t[0]
        if k == 'const':
            v = t[1]
            if v is None: return {NONE_}
            if v is True: return {TRUE_}
            if v is False: return {FALSE_}
            if isinstance(v, str): return {STR}
            return {NUM}
        if k == 'attr' and t[1] == ARGS:
            return set(st.get(t[2], {NUM}))
        if k == 'ite':
            ct, cf = self.truth(t[1], st)
            out = set()
            if ct:
                out |= self.val(t[2], self.refine(st, t[1], True))
            if cf:
                out |= self.val(t[3], self.refine(st, t[1], False))
            return out
        if k == 'call' and t[1][0] == 'attr' and t[1][2] == 'get_default' and len(t[2]) == 1 and t[2][0][0] == 'const':
            a = self.table.get(t[2][0][1])
            if a is None:
                return {NONE_}
            return self.val(C(a.default))
        if k in ('bin', 'un'):
            for x in t[2:]:
                if isinstance(x, tuple):
                    if NONE_ in self.val(x, st):
                        self.errors.append(('arithmetic on a possibly absent value', x, t))
            return {NUM}
        return {NUM}

    def truth(self, c, st=None):
        """-> (can be true, can be false); records ordering comparisons on possibly-None operands."""
        st = self.state if st is None else st
        k = c[0]
        if k == 'const':
            return (bool(c[1]), not bool(c[1]))
        if k == 'not':
            a, b = self.truth(c[1], st)
            return (b, a)
        if k == 'bool':
            if c[1] == 'and':
                cur, can_false = st, False
                for part in c[2]:
                    t, f = self.truth(part, cur)
                    can_false = can_false or f
                    if not t:
                        return (False, True)
                    cur = self.refine(cur, part, True)
                return (True, can_false)
            cur, can_true = st, False
            for part in c[2]:
                t, f = self.truth(part, cur)
                can_true = can_true or t
                if not f:
                    return (True, False)
                cur = self.refine(cur, part, False)
            return (can_true, True)
        if k == 'cmp':
            op, a, b = c[1], c[2], c[3]
            va, vb = self.val(a, st), self.val(b, st)
            if op in ('Lt', 'LtE', 'Gt', 'GtE'):
                for v, x in ((va, a), (vb, b)):
                    if NONE_ in v:
                        self.errors.append(('ordering comparison with a possibly absent value', x, c))
                return (True, True)
            if op in ('Eq', 'Is', 'NotEq', 'IsNot'):
                eq_possible = bool(va & vb)
                ne_possible = not (len(va) == 1 and va == vb and next(iter(va)) in (NONE_, FALSE_, TRUE_))
                if op in ('Eq', 'Is'):
                    return (eq_possible, ne_possible)
                return (ne_possible, eq_possible)
            return (True, True)
        v = self.val(c, st)
        can_t = bool(v & {TRUE_, NUM, STR})
        can_f = bool(v & {NONE_, FALSE_, NUM})
        return (can_t, can_f)

    def refine(self, st, c, truth):
        k = c[0]
        if k == 'not':
            return self.refine(st, c[1], not truth)
        if k == 'bool':
            if (c[1] == 'and') == truth:
                cur = st
                for part in c[2]:
                    cur = self.refine(cur, part, truth)
                return cur
            return st
        if k == 'cmp':
            op, a, b = c[1], c[2], c[3]
            if op in ('Lt', 'LtE', 'Gt', 'GtE'):
                cur = dict(st)
                for x in (a, b):
                    d = self.dest_of(x)
                    if d and x == A(ARGS, d):
                        cur[d] = frozenset(set(cur.get(d, {NUM})) - {NONE_})
                return cur
            if op in ('Eq', 'Is', 'NotEq', 'IsNot'):
                eq = (op in ('Eq', 'Is')) == truth
                for x, y in ((a, b), (b, a)):
                    if x[0] == 'attr' and x[1] == ARGS:
                        vy = self.val(y, st)
                        if len(vy) == 1 and next(iter(vy)) in (NONE_, FALSE_, TRUE_):
                            tag = next(iter(vy))
                            cur = dict(st)
                            old = set(cur.get(x[2], {NUM}))
                            cur[x[2]] = frozenset(old & {tag}) if eq else frozenset(old - {tag})
                            return cur
            return st
        if k == 'attr' and c[1] == ARGS:
            cur = dict(st)
            old = set(cur.get(c[2], {NUM}))
            cur[c[2]] = frozenset(old - {NONE_, FALSE_}) if truth else frozenset(old & {NONE_, FALSE_, NUM})
            return cur
        return st

    @staticmethod
    def dest_of(t):
        ds = {x[2] for x in walk(t) if x[0] == 'attr' and x[1] == ARGS}
        return next(iter(ds)) if len(ds) == 1 else None


def join(a, b):
    if a is None: return b
    if b is None: return a
    out = {}
    for k in set(a) | set(b):
        out[k] = frozenset(set(a.get(k, {NUM})) | set(b.get(k, {NUM})))
    return out


class Walker:
    def __init__(self, table, rep, where, cfg):
        self.table, self.rep, self.where, self.cfg = table, rep, where, cfg
        self.error_guards = []        # (cond term, state, effect)
        self.errs = []

    def is_error(self, e):
        return e.kind == 'expr' and e.term[0] == 'call' and e.term[1][0] == 'attr' and e.term[1][2] == 'error'

    def walk(self, effs, st):
        """-> (state or None if every path ended, returned?)"""
        i = 0
        while i < len(effs):
            e = effs[i]
            if st is None:
                return None, False
            if e.kind == 'if':
                av = Absval(self.table, st)
                ct, cf = av.truth(e.cond, st)
                for msg, x, c in av.errors:
                    self.errs.append((msg, x, c, e))
                then_err = any(self.is_error(x) for x in e.then)
                if then_err:
                    self.error_guards.append((e.cond, dict(st), e))
                r1 = r2 = None
                ret1 = ret2 = False
                if ct:
                    r1, ret1 = self.walk(e.then, av.refine(st, e.cond, True))
                if cf and not getattr(e, 'synthetic', False):
                    r2, ret2 = self.walk(e.orelse, av.refine(st, e.cond, False))
                elif cf and getattr(e, 'synthetic', False):
                    r2 = None
                if ret1 and ret2:
                    return join(r1, r2), True
                # a branch that returned from the enclosing function: its state continues after the call, handled by caller
                if ret1 or ret2:
                    self.pending = join(getattr(self, 'pending', None), r1 if ret1 else r2)
                    st = r2 if ret1 else r1
                else:
                    st = join(r1, r2)
            elif self.is_error(e):
                return None, False
            elif e.kind in ('call',):
                saved = getattr(self, 'pending', None)
                self.pending = None
                r, _ = self.walk(e.body, st)
                st = join(r, self.pending)
                self.pending = saved
            elif e.kind in ('iter', 'for', 'while'):
                r, ret = self.walk(e.body, st)
                if ret:
                    return r, True
                st = join(st, r) if e.kind != 'iter' else r
            elif e.kind == 'return':
                return st, True
            i += 1
        return st, False


def initial_state(table):
    st = {}
    for d, a in table.items():
        if a.required:
            st[d] = frozenset({NUM} if a.type != 'str' else {STR})
        elif a.action == 'store_true':
            st[d] = frozenset({FALSE_, TRUE_})
        else:
            dv = {NONE_} if a.default is None else ({NUM} if not isinstance(a.default, bool) else ({TRUE_} if a.default else {FALSE_}))
            st[d] = frozenset(dv | ({NUM} if a.type != 'str' else {STR}))
    return st


def numeric_uses(effs):
    """dests whose value is used in arithmetic, ordering, or as a count (range / arange / randint / int / float)."""
    uses = {}
    COUNT_FUNCS = ('range', 'np.arange', 'np.random.randint', 'int', 'float', 'random.randint', 'np.random.choice')
    def note(x, why, e):
        for y in walk(x):
            if y[0] == 'attr' and y[1] == ARGS:
                uses.setdefault(y[2], (why, e))
    seen = set()
    for e, ctx in iter_effects(effs):
        for k_, v_ in list(e.__dict__.items()):
            if not (isinstance(v_, tuple) and v_ and isinstance(v_[0], str)):
                continue
            for t in walk_unique(v_, seen):
                if t[0] == 'bin' and t[1] in ('Add', 'Sub', 'Mult', 'Div', 'FloorDiv', 'Mod', 'Pow'):
                    for x in (t[2], t[3]):
                        if x[0] == 'attr' and x[1] == ARGS:
                            # string concatenation with str(...) never reaches here: operands of + that are option values are numeric
                            note(x, 'arithmetic %s' % show(t)[:60], e)
                if t[0] == 'cmp' and t[1] in ('Lt', 'LtE', 'Gt', 'GtE'):
                    for x in (t[2], t[3]):
                        if x[0] == 'attr' and x[1] == ARGS:
                            note(x, 'ordering %s' % show(t)[:60], e)
                if t[0] == 'call' and show(t[1]) in COUNT_FUNCS:
                    for x in t[2]:
                        if x[0] == 'attr' and x[1] == ARGS:
                            note(x, 'argument of %s' % show(t[1]), e)
    return uses


def atom_norm(c, inttypes):
    """ordering atom over option values -> (op, L, R) with L, R dest names or numbers, op in {'<','<='}; integer-shift normalised."""
    if c[0] == 'not':
        inner = atom_norm(c[1], inttypes)
        if inner is None:
            return None
        op, L, R = inner
        # not (L < R) == R <= L ; not (L <= R) == R < L
        return ('<=' if op == '<' else '<', R, L) if True else None
    if c[0] != 'cmp' or c[1] not in ('Lt', 'LtE', 'Gt', 'GtE'):
        return None
    def side(x):
        if is_num(x):
            return x[1]
        d = Absval.dest_of(x)
        return d
    L, R = side(c[2]), side(c[3])
    if L is None or R is None:
        return None
    op = {'Lt': '<', 'LtE': '<=', 'Gt': '>', 'GtE': '>='}[c[1]]
    if op in ('>', '>='):
        L, R = R, L
        op = '<' if op == '>' else '<='
    # integer shift:  x <= k  ==  x < k+1 ;  k <= x == k-1 < x   (ints only)
    if op == '<=':
        if isinstance(R, (int, float)) and isinstance(L, str) and L in inttypes and float(R) == int(R):
            return ('<', L, int(R) + 1)
        if isinstance(L, (int, float)) and isinstance(R, str) and R in inttypes and float(L) == int(L):
            return ('<', int(L) - 1, R)
    if isinstance(L, float) and L == int(L): L = int(L)
    if isinstance(R, float) and R == int(R): R = int(R)
    return (op, L, R)


def parse_doc_bound(text, inttypes):
    n = ast.parse(text, mode='eval').body
    op = {ast.Lt: 'Lt', ast.LtE: 'LtE', ast.Gt: 'Gt', ast.GtE: 'GtE'}[type(n.ops[0])]
    def tm(x):
        return C(x.value) if isinstance(x, ast.Constant) else A(ARGS, x.id)
    return atom_norm(CMP(op, tm(n.left), tm(n.comparators[0])), inttypes)


def run(rep, repo, tier):
    for k, v in RULES.items():
        rep.rule(k, v)
    rep.assumptions += ['A5 argparse contracts: store default None; store_true default False; required=True; parser.error does not return',
                        'an accepted argument set of a type = documented required parameters present with in-range values, any applicable optional parameter present or absent']
    pf = repo.method('Instance_options_parser', 'parse')
    specs = argparse_table(pf.node, repo)
    table = {a.dest: a for a in specs}
    # ---- R1 ----
    for dest, (flag, typ) in spec.GEN_FLAGS.items():
        a = table.get(dest)
        if a is None:
            rep.fail('C15.R1', pf.where, 'documented option %s exists' % flag, got='no add_argument with dest=%s' % dest, construct='option %s missing' % dest)
            continue
        want_t = {int: 'int', float: 'float', str: 'str', bool: None}[typ]
        ok = flag in a.flags and (a.type == want_t or (typ is str and a.type in ('str', None))) and (a.action == ('store_true' if typ is bool else 'store'))
        rep.check(ok, 'C15.R1', pf.where, 'option %s has dest %s, type %s' % (flag, dest, typ.__name__), got=repr(a), construct='option %s declaration' % dest, loc='%s:%d' % (pf.relpath, a.line))
        sentinel_ok = (a.default is None) if a.action == 'store' else (a.default is False)
        if not a.required:
            rep.check(sentinel_ok, 'C15.R1', pf.where, 'an absent %s is delivered as a value no user input can produce (so "was it given?" is decidable)' % flag,
                      got='action=%s default=%r' % (a.action, a.default), want='None (store) / False (store_true)', construct='default of %s: %r' % (dest, a.default),
                      loc='%s:%d' % (pf.relpath, a.line))
    for d in ('numberinstances', 'outputdirectory', 'matchingproblem'):
        if d in table:
            rep.check(table[d].required, 'C15.R1', pf.where, '%s is required by argparse itself' % d, got=repr(table[d]), construct='%s not required' % d)
    mp = table.get('matchingproblem')
    rep.check(mp is not None and sorted(mp.choices or []) == sorted(TYPES.values()), 'C15.R1', pf.where, '-mp accepts exactly ha, sm, hr, spa', got=mp.choices if mp else None,
              construct='-mp choices')
    inttypes = {d for d, a in table.items() if a.type == 'int'}
    final_states = {}
    for T, mpval in TYPES.items():
        it = Interp(repo)
        it.aliases.append(argparse_alias)
        it.heap[A(ARGS, 'matchingproblem')] = C(mpval)
        try:
            effs, rv = it.run(pf, {})
        except Unknown as u:
            rep.inconclusive('C15.R3', pf.where, 'parse() is inside the interpreted fragment [-mp %s]' % mpval, got=str(u))
            continue
        cfg = '[-mp %s]' % mpval
        res = semantic_tables(rep, repo, pf, table, T, mpval, effs, it)
        if res is None:
            continue
        final_states[T] = (res, None, it)
    # ---- R3 (generation path) ----
    for T in TYPES:
        if T not in final_states:
            continue
        final, st, _ = final_states[T]
        gcls = 'Generator_spa' if T == 'SPA' else 'Generator_ha_sm_hr'
        gf = repo.method(gcls, 'generate_instances')
        twopl_vals = {'HA': [False], 'SM': [True], 'HR': [True], 'SPA': [False, True]}[T]
        for tw in twopl_vals:
            it = Interp(repo)
            it.heap[A(ARGS, 'twopl')] = C(tw)
            try:
                geffs, _ = it.run(gf, {[p_ for p_ in gf.params if p_ != 'self'][0]: ARGS})
            except Unknown as u:
                rep.inconclusive('C15.R3', gf.where, 'generate_instances is inside the interpreted fragment [%s]' % T, got=str(u))
                continue
            uses = numeric_uses(geffs)
            rep.count('numeric_use_sites', len(uses))
            for d, (why, e) in sorted(uses.items()):
                if d not in final:
                    continue
                ok = NONE_ not in final[d]
                rep.check(ok, 'C15.R3', e.where, 'option %s is present wherever generation of a %s instance computes with it%s' % (d, T, ' (-twopl)' if tw else ''),
                          got='may be None at %s' % why if not ok else 'never None', want='defaulted or required for %s' % T,
                          construct='%s may be None in %s generation' % (d, T), loc=e.loc)
    # ---- R5 ----
    check_no_output_before_acceptance(rep, repo)
    check_no_carried_state(rep, repo)
    from ..defined import check_defined
    check_defined(rep, repo, 'C15.R3', [repo.method('Instance_options_parser', 'parse'), repo.method('Generator', '__init__', required=False)], 'generator option path')
    from .c17 import division_safety
    division_safety(rep, repo, 'C15.R6')


# ---- semantic decision tables of parse() ------------------------------------------------------------------------------------
GOOD = dict(numberinstances=1, outputdirectory='out', n1=4, n2=3, n3=2, minpreflistlength=1, maxpreflistlength=3, ties1=0.5, ties2=0.5,
            lowerquotas=2, upperquotas=5, lecturerlowerquotas=1, lecturertargets=2, lecturerupperquotas=4, twopl=True, skew=2.0)
# documented bound -> overrides (on a valuation with every applicable option present) that violate exactly this bound
VIOLATE = {
    'numberinstances >= 1': dict(numberinstances=0), 'n1 >= 1': dict(n1=0), 'n2 >= 1': dict(n2=0), 'n3 >= 1': dict(n3=0),
    'pmin >= 1': dict(minpreflistlength=0), 'pmin <= pmax': dict(minpreflistlength=3, maxpreflistlength=2), 'pmax <= n2': dict(maxpreflistlength=4, n1=9),
    't1 >= 0': dict(ties1=-0.5), 't1 <= 1': dict(ties1=1.5), 't2 >= 0': dict(ties2=-0.5), 't2 <= 1': dict(ties2=1.5),
    'uq >= n2': dict(upperquotas=2, lowerquotas=1), 'lq <= uq': dict(lowerquotas=6), 'lt <= luq': dict(lecturertargets=5), 'llq <= lt': dict(lecturerlowerquotas=3),
}
VIOLATE_ZERO = {
    'uq >= n2': [dict(upperquotas=0, lowerquotas=0)], 'lt <= luq': [dict(lecturerupperquotas=0, lecturertargets=1, lecturerlowerquotas=0)],
    'lq <= uq': [dict(upperquotas=0, lowerquotas=1)], 'llq <= lt': [dict(lecturertargets=0, lecturerlowerquotas=1)], 'pmin <= pmax': [dict(maxpreflistlength=0, minpreflistlength=1)],
    'pmax <= n2': [],
}
# legal valuations on the boundary of the documented bounds (must be accepted)
BOUNDARY = [
    dict(n1=1, minpreflistlength=1, maxpreflistlength=1), dict(maxpreflistlength=3, minpreflistlength=3), dict(n1=2, n2=5, maxpreflistlength=4, upperquotas=6),
    dict(upperquotas=3, lowerquotas=3), dict(ties1=0.0, ties2=1.0), dict(ties1=1.0, ties2=0.0), dict(lecturertargets=4, lecturerlowerquotas=2), dict(lecturerlowerquotas=2, lecturertargets=2),
    dict(lowerquotas=0, lecturerlowerquotas=0, lecturertargets=0), dict(n2=1, minpreflistlength=1, maxpreflistlength=1, upperquotas=1, lowerquotas=0), dict(numberinstances=1), dict(skew=1.0),
    # every count at its smallest documented value, every sum bound met with equality
    dict(n3=1), dict(lecturerupperquotas=1, lecturertargets=1, lecturerlowerquotas=1), dict(lecturerupperquotas=1, lecturertargets=0, lecturerlowerquotas=0),
    dict(n1=1, n2=1, n3=1, minpreflistlength=1, maxpreflistlength=1, upperquotas=1, lowerquotas=1, lecturerupperquotas=1, lecturertargets=1, lecturerlowerquotas=1),
    dict(upperquotas=3), dict(maxpreflistlength=3), dict(minpreflistlength=1), dict(ties1=0.0), dict(ties1=1.0), dict(ties2=0.0), dict(ties2=1.0),
]


def semantic_tables(rep, repo, pf, table, T, mpval, effs, it):
    """R2 / R3 (option checking) / R4 decided on finitely many representative argument valuations of the problem type:
    the effect tree of parse() is walked in program order under each valuation (termeval.simulate); a valuation is refused
    when a parser.error call is reached, accepted when the end is reached, and any comparison or arithmetic that Python
    would refuse on the values at hand (None < 1 ...) is reported.  Independent of how the checks are written
    (inline guards, tables, helper predicates, lazily generated violation lists)."""
    from ..termeval import PyEval, NOATOM, Raises, Refused, simulate, Leave
    cfg = '[-mp %s]' % mpval
    required = spec.GEN_REQUIRED[T]
    banned = spec.GEN_BANNED[T]
    always = {'numberinstances', 'outputdirectory'}
    optional = set(table) - required - banned - always - {'matchingproblem'}

    def is_error(e):
        return e.kind == 'expr' and e.term[0] == 'call' and e.term[1][0] == 'attr' and e.term[1][2] == 'error'

    def run_one(vals):
        """-> ('accepted', None) | ('refused', eff) ; raises Raises / Unknown"""
        def atom(t):
            if t[0] == 'attr' and t[1] == ARGS:
                if t[2] == 'matchingproblem':
                    return mpval
                if t[2] in vals:
                    return vals[t[2]]
                a = table.get(t[2])
                return a.default if a is not None else None
            if t[0] == 'call' and t[1][0] == 'attr' and t[1][2] == 'get_default' and len(t[2]) == 1 and t[2][0][0] == 'const':
                a = table.get(t[2][0][1])
                return a.default if a is not None else None
            if t[0] == 'sym' and t[1] in ('PARSER',):
                return 'PARSER'
            if t == ARGS:
                return 'ARGS'
            return NOATOM
        def call(t, argv):
            # getattr(args, <name>): the option value as parsed (dynamic reads see the values argparse delivered)
            if t[1] == S('getattr') and len(argv) in (2, 3) and argv[0] == 'ARGS' and isinstance(argv[1], str):
                return atom(A(ARGS, argv[1]))
            if t[1] == S('hasattr') and len(argv) == 2 and argv[0] == 'ARGS' and isinstance(argv[1], str):
                return argv[1] in table
            if t[1][0] == 'attr' and t[1][2] == 'get_default' and len(argv) == 1 and isinstance(argv[0], str):
                a = table.get(argv[0])
                return a.default if a is not None else None
            return NOATOM
        pe = PyEval(atom, call=call)
        try:
            simulate(pe, effs, is_error)
        except Refused as r:
            return 'refused', r.eff, pe
        except Leave:
            pass
        return 'accepted', None, pe

    def base(full):
        v = {d: GOOD[d] for d in (required | always) if d in GOOD}
        if full:
            v.update({d: GOOD[d] for d in optional if d in GOOD})
        return v

    def show_vals(v):
        return ' '.join('-%s %s' % (k, x) for k, x in sorted(v.items()) if k not in ('outputdirectory', 'numberinstances'))

    problems = 0
    n_val = 0
    finals = {}
    try:
        # accepted: required only / everything applicable / boundary values
        accept_sets = [('only the required parameters', base(False)), ('every applicable parameter', base(True))]
        for bd in BOUNDARY:
            v = base(True)
            if not set(bd) <= set(v):
                continue
            v.update(bd)
            accept_sets.append(('boundary values %s' % bd, v))
        for label, v in accept_sets:
            n_val += 1
            verdict, e, pe = run_one(v)
            if verdict != 'accepted':
                problems += 1
                rep.fail('C15.R2', e.where, 'a documented, in-range argument set of %s is accepted (%s)' % (T, label), got='refused: %s | %s' % (show(e.term)[:100], show_vals(v)), want='accepted',
                         construct='valid %s set refused: %s' % (T, label), loc=e.loc)
            else:
                # abstract final values of every option after acceptance (for the generation path)
                for d in table:
                    t = it.heap.get(A(ARGS, d), A(ARGS, d))
                    try:
                        val = pe.ev(t)
                    except Unknown:
                        val = 'unknown'
                    finals.setdefault(d, set()).add(NONE_ if val is None else (TRUE_ if val is True else FALSE_ if val is False else NUM))
        # required / banned
        for d in sorted(required):
            v = base(False)
            v.pop(d, None)
            n_val += 1
            verdict, e, _ = run_one(v)
            if verdict != 'refused':
                problems += 1
                rep.fail('C15.R2', pf.where, 'a %s argument set without the required -%s is refused' % (T, d), got='accepted: ' + show_vals(v), want='parser.error', construct='%s accepted without %s' % (T, d))
        for d in sorted(banned):
            a = table.get(d)
            candidates = [GOOD.get(d)]
            # also the value the option is defaulted to later (an inapplicable option supplied with that very value must still be refused)
            candidates += {'ties1': [0.0], 'ties2': [0.0], 'lowerquotas': [0], 'lecturerlowerquotas': [0], 'lecturertargets': [0], 'skew': [1.0]}.get(d, [])
            for val in candidates:
                if val is None:
                    continue
                v = base(False)
                v[d] = val
                n_val += 1
                verdict, e, _ = run_one(v)
                if verdict != 'refused':
                    problems += 1
                    rep.fail('C15.R2', pf.where, 'a %s argument set with the inapplicable -%s is refused' % (T, d), got='accepted: ' + show_vals(v), want='parser.error',
                             construct='%s accepted with %s=%r' % (T, d, val))
        # bounds
        for name, viol in spec.GEN_BOUNDS:
            if T not in APPLIES.get(name, tuple(TYPES)):
                continue
            ov0 = VIOLATE.get(name)
            if ov0 is None:
                continue
            # the violating valuation, and the ones in which the offending value is 0 (falsy: `if x and x < n` skips the test)
            for ov in [ov0] + VIOLATE_ZERO.get(name, []):
                v = base(True)
                ov = dict(ov)
                if T == 'SM' and name == 'pmax <= n2':
                    ov = dict(maxpreflistlength=5)              # n2 is n1 = 4 for SM
                if not set(ov) <= set(v) | {'n1'}:
                    continue
                v.update({k: x for k, x in ov.items() if k in v})
                n_val += 1
                verdict, e, _ = run_one(v)
                if verdict != 'refused':
                    problems += 1
                    rep.fail('C15.R4', pf.where, 'bound %s is enforced for problem type %s' % (name, T), got='accepted: ' + show_vals(v), want='if %s: parser.error(...)' % viol,
                             construct='bound %s not enforced for %s' % (name, T))
                else:
                    rep.ok('C15.R4', e.where, 'bound %s is enforced for %s' % (name, T), got='refused by %s' % show(e.term)[:80], loc=e.loc)
    except Raises as r:
        rep.fail('C15.R3', pf.where, 'option checks never compare or compute with an absent value %s' % cfg, got=str(r), want='a parser error or acceptance, never an exception',
                 construct='option checking raises %s' % cfg)
        return None
    except Unknown as u:
        rep.inconclusive('C15.R3', pf.where, 'parse() can be evaluated on representative argument sets %s' % cfg, got=str(u))
        return None
    rep.count('argument_valuations', n_val)
    if problems == 0:
        rep.ok('C15.R2', pf.where, 'required / inapplicable parameters of %s: every documented valid set accepted, every single omission and every inapplicable parameter refused' % T, got='%d valuations' % n_val)
        rep.ok('C15.R3', pf.where, 'no option check fails with an exception on any of the %d representative valuations %s' % (n_val, cfg), got='none raised')
    return finals


def writers(repo):
    """Functions of the generator package that can (transitively) create a directory or open a file for writing."""
    gen = repo.rel('generator')
    direct = set()
    calls = {}
    funcs = [f for f in repo.all_funcs() if f.relpath.startswith(gen)]
    for f in funcs:
        cs = set()
        for n in ast.walk(f.node):
            if isinstance(n, ast.Call):
                nm = n.func.attr if isinstance(n.func, ast.Attribute) else (n.func.id if isinstance(n.func, ast.Name) else None)
                if nm in ('makedirs', 'mkdir'):
                    direct.add(f.qualname)
                if nm == 'open':
                    mode = n.args[1] if len(n.args) > 1 else next((k.value for k in n.keywords if k.arg == 'mode'), None)
                    if mode is not None and isinstance(mode, ast.Constant) and any(ch in str(mode.value) for ch in 'wax+'):
                        direct.add(f.qualname)
                if nm:
                    cs.add(nm)
        calls[f.qualname] = cs
    names = {f.qualname: f.name for f in funcs}
    w = set(direct)
    changed = True
    while changed:
        changed = False
        for q, cs in calls.items():
            if q not in w and any(names[x] in cs for x in w):
                w.add(q)
                changed = True
    return w, direct


def check_no_carried_state(rep, repo):
    """R7: the required / banned tables and every other list the parser fills are fresh in each call"""
    from ..lints import mutable_default_mutations
    cls = repo.classes.get('Instance_options_parser', {})
    n = 0
    bad = []
    for f in cls.values():
        n += 1
        for name, line, how in mutable_default_mutations(f):
            bad.append((f, name, line, how))
    for f, name, line, how in bad:
        rep.fail('C15.R7', f.where, 'the tables a parse fills are created by that parse', got='%s fills its default argument %s (%s): the list is created once and shared by all later calls' % (f.name, name, how),
                 want='a new list per call', construct='mutable default argument %s of %s' % (name, f.name), loc='%s:%d' % (f.relpath, line))
    if not bad:
        rep.ok('C15.R7', repo.method('Instance_options_parser', 'parse').where, 'no method of the option parser mutates a default argument (%d methods)' % n, got='none')


def check_no_output_before_acceptance(rep, repo):
    init = repo.method('Generator', '__init__')
    w, direct = writers(repo)
    rep.check(bool(direct), 'C15.R5', init.where, 'the functions that write to the file system are identified', got=sorted(direct), construct='no writer found')
    parse_side = [q for q in w if q.startswith('Instance_options_parser.')]
    rep.check(not parse_side, 'C15.R5', repo.method('Instance_options_parser', 'parse').where, 'option parsing never touches the file system', got=sorted(parse_side),
              construct='parser writes: %s' % sorted(parse_side))
    g = CFG(init.node)
    wnames = {q.split('.')[-1] for q in w if not q.endswith('__init__')}
    pcalls, wcalls = [], []
    for n in ast.walk(init.node):
        if isinstance(n, ast.Call):
            nm = n.func.attr if isinstance(n.func, ast.Attribute) else (n.func.id if isinstance(n.func, ast.Name) else None)
            if nm == 'parse':
                pcalls.append(n)
            elif nm in wnames or nm in ('makedirs', 'mkdir', 'open'):
                wcalls.append(n)
    if not pcalls:
        rep.fail('C15.R5', init.where, 'Generator.__init__ parses the options', got='no parse() call', construct='no parse call')
        return
    pn = g.node_of(pcalls[0])
    for c in wcalls:
        cn = g.node_of(c)
        ok = pn is not None and cn is not None and pn is not cn and g.dominates(pn, cn)
        rep.check(ok, 'C15.R5', init.where, 'parse() dominates the call that can write (%s)' % ast.unparse(c.func), got='parse@%d writer@%d' % (pcalls[0].lineno, c.lineno),
                  want='options accepted before anything is written', construct='writer %s not dominated by parse' % ast.unparse(c.func), loc='%s:%d' % (init.relpath, c.lineno))
    rep.check(bool(wcalls), 'C15.R5', init.where, 'instance generation is started from Generator.__init__ after parsing', got='%d generating calls' % len(wcalls), construct='no generation call')
