"""C09 -- every generated instance is loadable by the solver under the documented flags (part; DESIGN.md section 5, C09).

Decided: the FORMAT CONTRACT between generator and solver -- the writer's and the reader's tables agree, for both file
kinds and every section.  "Both modes then solve it correctly" is C01/C02/C07 applied to the loaded model and is not
re-decided here."""
import ast

from ..terms import *
from ..poly import *
from ..absint import iter_effects
from ..loader import AnalysisError
from .. import doc, spec
from ..writerfacts import writer_facts, dests, hole_terms, ARGS
from ..optparse_facts import parser_facts
from .c10 import Reader
from .c13 import find_reader

RULES = {
    'C09.R1': 'field agreement: for every line kind, field k written by the generator and field k consumed by the solver carry the same role; fields are separated by whitespace once ":" is deleted; a list-valued field is last',
    'C09.R2': 'section agreement: header counts and the order and number of lines per section are the same in writer and reader, for -na 2 and -na 3',
    'C09.R3': 'flag vocabulary: -f, -na (int), -twopl, -bf, -stab, -pc exist in the solver with the documented arity',
    'C09.R5': 'a file the generator can write is never rejected by the reader: no raise on an empty second-side list; and it is the file given that is read (C10.R8: nothing remembered from an earlier file of the same name)',
    'C09.R6': 'the loaded instance is solved by a model whose constraints are the definition of a valid matching (C01.R1-R3 re-evaluated on the current tree)',
    'C09.R7': 'ties written by the generator are the ties the solver reads: product of the tie writer and the tie reader tables (C13.R1-R3 re-evaluated on the current tree)',
    'C09.R4': 'rank look-up totality: with -twopl the reader looks up (lecturer, student) for every pair; those keys are exactly the ones the generator writes (C12); numeric fields are written as integers',
}

# writer role (set of generator options) -> reader attribute
ROLE2ATTR = {
    frozenset(['lowerquotas', 'n2']): 'proj_lower_quotas', frozenset(['upperquotas', 'n2']): 'proj_upper_quotas',
    frozenset(['n2', 'n3']): 'project_lecturers',
    frozenset(['lecturerlowerquotas', 'n3']): 'lec_lower_quotas', frozenset(['lecturertargets', 'n3']): 'lec_targets',
    frozenset(['lecturerupperquotas', 'n3']): 'lec_upper_quotas',
}


def writer_table(wf, cls):
    """section -> list of field roles after the id ('LIST' for the preference tokens); raises on fused fields"""
    out = []
    nsec = 2 if cls == 'Generator_ha_sm_hr' else 3
    for line in wf.lines[1:1 + nsec]:
        fields = doc.fields_of(line)
        row = []
        for fld in fields[1:]:
            ts = hole_terms(fld)
            if len(ts) == 1 and ts[0][0] == 'hole' and ts[0][2] is None:
                row.append(ROLE2ATTR.get(wf.role(ts[0][1]), ('?', sorted(wf.role(ts[0][1]) or []))))
            elif all(t[0] in ('list', 'alt', 'hole') for t in ts) and any(t[0] in ('list', 'alt') or t[2] == ' ' for t in ts):
                row.append('LIST')
            else:
                row.append(('FUSED', [t[0] for t in ts]))
        cnt = None
        if len(line.chain) == 1:
            d = line.chain[0][0][3]
            if d[0] == 'call' and d[1] == S('range') and len(d[2]) == 1:
                r = wf.role(d[2][0])
                cnt = next(iter(r)) if r and len(r) == 1 else None
                if cnt is not None and not (d[2][0][0] in ('sym', 'attr') or (d[2][0][0] == 'call' and d[2][0][1] == S('len'))):
                    cnt = '%s: %s lines' % (cnt, show(d[2][0]))          # count - 1, count + 1 ...: not the number the header announces
        out.append((cnt, row, line))
    return out


def reader_table(R):
    """section -> field index -> attribute(s); list slice start"""
    tab = {}
    for attr in ('proj_lower_quotas', 'proj_upper_quotas', 'lec_lower_quotas', 'lec_targets', 'lec_upper_quotas'):
        aps = R.appends(attr)
        if len(aps) == 1:
            k = R.field(aps[0][0].value)
            tab[attr] = k
    pl = [x for x in walk(R.it.heap.get(A(R.model, 'proj_lecturers'), NONE)) if False]
    return tab


def run(rep, repo, tier):
    for k, v in RULES.items():
        rep.rule(k, v)
    from ..defined import check_defined
    check_defined(rep, repo, 'C09.R5', [repo.method(c_, 'generate_instances', required=False) for c_ in ('Generator_ha_sm_hr', 'Generator_spa')] + [repo.method('Generator', '__init__', required=False)] + [repo.function('import_model', required=False)], 'generator and reader')
    rep.assumptions += ['"both solving modes then produce a correct result" is C01/C02/C07 on the loaded model; not re-decided here']
    for cls, na in (('Generator_ha_sm_hr', 2), ('Generator_spa', 3)):
        try:
            wf = writer_facts(repo, cls, True)
            R = Reader(repo, na, True)
        except (AnalysisError, Unknown) as e:
            rep.inconclusive('C09.R1', repo.method(cls, 'create_instance').where, 'writer and reader are inside the interpreted fragment', got=str(e))
            continue
        cfg = '[%s / -na %d]' % (cls, na)
        w = wf.ci.where
        # the ranks read for a tie group reach the model: entry k of the tokenised ranks goes with entry k of the tokenised ids
        from .c10 import check_token_use
        check_token_use(rep, R, cfg, rule='C09.R7')
        for p in wf.problems:
            rep.fail('C09.R2', w, 'the file is a sequence of newline-terminated lines %s' % cfg, got=p, construct='line structure: ' + p[:80])
        # ---- header ----
        hdr = wf.lines[0] if wf.lines else None
        hf = doc.fields_of(hdr, drop='') if hdr is not None else []
        wh = []
        for f_ in hf:
            ts = hole_terms(f_)
            r = wf.role(ts[0][1]) if (len(ts) == 1 and ts[0][0] == 'hole') else None
            wh.append(next(iter(r)) if r and len(r) == 1 else '?')
        rh = {}
        for attr in ('num_students', 'num_projects', 'num_lecturers'):
            st = R.header_stores(attr)
            if len(st) == 1:
                rh[attr] = st[0][1]
        want_r = {'num_students': 'n1', 'num_projects': 'n2', 'num_lecturers': 'n2' if na == 2 else 'n3'}
        for attr, opt in want_r.items():
            k = rh.get(attr)
            ok = k is not None and k < len(wh) and wh[k] == opt
            rep.check(ok, 'C09.R2', w, 'the solver reads %s from the header position where the generator writes %s %s' % (attr, opt, cfg),
                      got='reader field %s; writer header %s' % (k, wh), want='%s at the same position' % opt, construct='header %s: reader[%s] vs writer %s' % (attr, k, wh))
        # ---- sections ----
        wt = writer_table(wf, cls)
        from ..writerfacts import list_alt_problems
        for cnt_, row_, line_ in wt:
            for fld_ in doc.fields_of(line_)[1:]:
                # the tokens of a list-valued field are what the reader's split() separates again: joined by whitespace
                def seps_(items):
                    out_ = []
                    for x_ in items:
                        if isinstance(x_, (doc.Rep, doc.Hole)) and getattr(x_, 'sep', None) is not None:
                            out_.append(x_.sep)
                        elif isinstance(x_, doc.Alt):
                            out_ += seps_(x_.a) + seps_(x_.b)
                    return out_
                bad_sep = [s_ for s_ in seps_([x_ for x_ in fld_ if not isinstance(x_, str)]) if not s_ or s_.strip()]
                if bad_sep:
                    rep.fail('C09.R1', w, 'the tokens of a preference list are separated by whitespace (the reader splits on it) %s' % cfg, got='joined by %r' % bad_sep[0], want="' '",
                             construct='list tokens joined by %r' % bad_sep[0])
                for prob in list_alt_problems(fld_):
                    rep.fail('C09.R1', w, 'second-side preference tokens are written exactly when the instance has second-side lists %s' % cfg, got=prob, want='tokens iff the lists exist',
                             construct='second-side list written under the inverted condition')
        counts = [c for c, _, _ in wt]
        want_counts = ['n1', 'n2'] if na == 2 else ['n1', 'n2', 'n3']
        rep.check(counts == want_counts, 'C09.R2', w, 'the generator writes the sections in the order and number the solver expects %s' % cfg, got=counts, want=want_counts,
                  construct='section order %s' % counts)
        # reader fields
        rattr = {}
        for attr in ('proj_lower_quotas', 'proj_upper_quotas', 'lec_lower_quotas', 'lec_targets', 'lec_upper_quotas'):
            aps = R.appends(attr)
            if len(aps) == 1:
                rattr[attr] = R.field(aps[0][0].value)
        pls = R.lecturer_of_project_appends()
        if na == 3 and len(pls) == 1:
            rattr['project_lecturers'] = R.field(pls[0][0].value)
        reader_fn = find_reader(repo)
        slices = {}
        st_calls, sec_calls = R.tokeniser_calls()
        for e, ctx in st_calls:
            slices['first'] = R.slice_from(e.args[0])
        for e, ctx in sec_calls:
            slices['second'] = R.slice_from(e.args[0])
        # first side
        if wt:
            cnt, row, line = wt[0]
            rep.check(row == ['LIST'] and slices.get('first') == 1, 'C09.R1', w, 'first-side line: id then the preference tokens; the solver takes fields[1:] %s' % cfg,
                      got='writer %s; reader slice %s' % (row, slices.get('first')), want="['LIST'] / 1", construct='first-side fields %s vs slice %s' % (row, slices.get('first')))
        # second / project / lecturer lines
        if na == 2 and len(wt) > 1:
            cnt, row, line = wt[1]
            check_row(rep, w, cfg, 'second-side line', row, {'proj_lower_quotas': rattr.get('proj_lower_quotas'), 'proj_upper_quotas': rattr.get('proj_upper_quotas')}, slices.get('second'))
            # embedding: the same two columns also feed the hospital's own lecturer
            emb = (rattr.get('lec_lower_quotas'), rattr.get('lec_upper_quotas'), rattr.get('lec_targets'))
            rep.check(emb == (rattr.get('proj_lower_quotas'), rattr.get('proj_upper_quotas'), rattr.get('proj_upper_quotas')), 'C09.R1', w,
                      "the hospital's lecturer quotas are read from the same columns (lower, upper, target = upper) %s" % cfg, got=emb, construct='embedding columns %s' % (emb,))
        if na == 3 and len(wt) > 2:
            check_row(rep, w, cfg, 'project line', wt[1][1], {k: rattr.get(k) for k in ('proj_lower_quotas', 'proj_upper_quotas', 'project_lecturers')}, None)
            check_row(rep, w, cfg, 'lecturer line', wt[2][1], {k: rattr.get(k) for k in ('lec_lower_quotas', 'lec_targets', 'lec_upper_quotas')}, slices.get('second'))
    check_flags(rep, repo)
    check_integers(rep, repo)
    from .c10 import check_no_rejection
    for na in (2, 3):
        try:
            check_no_rejection(rep, Reader(repo, na, True), 'C09.R5')
        except (AnalysisError, Unknown) as e:
            rep.inconclusive('C09.R5', repo.function('_import_from_file').where, 'reader is inside the interpreted fragment', got=str(e))
    from .c10 import check_import_pure
    check_import_pure(rep, repo, 'C09.R5')
    # C09.R6: validity schema of the LP that solves the loaded instance (same rule functions as C01, re-run here)
    from . import c01
    from .. import lpfacts
    prox = RuleProxy(rep, 'C09.R6')
    for pc in (False, True):
        for stab in (False, True):
            r = lpfacts.get_run(repo, pc, stab, [])
            c01.check_run(prox, r, pc, stab, [])
    c01.check_grouping(prox, repo, rule='C09.R6')
    # C09.R7: tie writer x tie reader (same tables and exploration as C13)
    from . import c13
    from .. import transducer as T_
    prox7 = RuleProxy(rep, 'C09.R7')
    try:
        wf_, fw_, _ = c13.find_writer(repo)
        rf_ = c13.find_reader(repo)
        wt_ = T_.WriterTable(wf_, resolver=c13.helper_resolver(repo, repo.rel('generator')), ties_are_arrays=c13.ties_are_arrays(repo))
        decs_ = sorted({v[1] for v in wt_.table.values() if v[0] != 'BAD'})
        rt_ = T_.ReaderTable(rf_, decs_, resolver=c13.helper_resolver(repo, repo.rel('solver')))
        viol_, stats_ = T_.explore(wt_.table, wt_.init, rt_)
        seen_ = set()
        for kind, msg, tr in viol_:
            if (kind, msg) in seen_:
                continue
            seen_.add((kind, msg))
            prox7.fail('C09.R7', (wf_ if kind == 'writer' else rf_).where, 'the solver reads the tie groups the generator wrote', got='%s: %s  [after: %s]' % (kind, msg, c13.fmt_trace(tr)),
                       construct='%s: %s' % (kind, msg))
        if not viol_:
            prox7.ok('C09.R7', rf_.where, 'tie writer x tie reader: %d product states, %d transitions, ranks agree with the written groups' % (stats_['product_states'], stats_['transitions']))
    except (Unknown, AnalysisError) as u:
        prox7.inconclusive('C09.R7', 'matchingproblems/solver/fileIO.py', 'tie writer and tie reader are inside the recognised fragment', got=str(u))


class RuleProxy:
    """Reports another property's rule functions under one rule id of this property."""
    def __init__(self, rep, rule):
        self.rep, self.rule = rep, rule

    def __getattr__(self, k):
        return getattr(self.rep, k)

    def check(self, cond, rule, *a, **kw): return self.rep.check(cond, self.rule, *a, **kw)
    def fail(self, rule, *a, **kw): return self.rep.fail(self.rule, *a, **kw)
    def ok(self, rule, *a, **kw): return self.rep.ok(self.rule, *a, **kw)
    def inconclusive(self, rule, *a, **kw): return self.rep.inconclusive(self.rule, *a, **kw)


def check_row(rep, w, cfg, name, row, reader, slice_start):
    for k, role in enumerate(row, 1):
        if isinstance(role, tuple):
            rep.fail('C09.R1', w, '%s field %d is one whitespace-separated value %s' % (name, k, cfg), got=role, want='a single value per field', construct='%s field %d: %s' % (name, k, role[0]))
            continue
        if role == 'LIST':
            rep.check(k == len(row), 'C09.R1', w, 'the list-valued field is the last one of the %s %s' % (name, cfg), got='field %d of %d' % (k, len(row)), construct='%s list position %d' % (name, k))
            if slice_start is not None or name != 'project line':
                rep.check(slice_start == k, 'C09.R1', w, 'the solver takes the preference tokens of a %s from field %d on %s' % (name, k, cfg), got='fields[%s:]' % slice_start, want='fields[%d:]' % k,
                          construct='%s list slice %s vs %d' % (name, slice_start, k))
            continue
        rk = reader.get(role)
        rep.check(rk == k, 'C09.R1', w, '%s: %s is written as field %d and read from field %d %s' % (name, role, k, k, cfg), got='read from field %s' % rk, want='field %d' % k,
                  construct='%s %s: written %d read %s' % (name, role, k, rk))
    for attr, rk in reader.items():
        if attr not in row:
            rep.fail('C09.R1', w, 'the %s contains the %s column the solver reads %s' % (name, attr, cfg), got='writer fields %s' % row, want=attr, construct='%s lacks %s' % (name, attr))


def check_flags(rep, repo):
    pf = parser_facts(repo)
    w = pf.parse.where
    for dest, (flag, action, typ, required) in spec.SOLVER_FLAGS.items():
        a = pf.by_dest.get(dest)
        ok = a is not None and flag in a.flags and a.action == action and (typ is None or a.type == typ.__name__) and a.required == required and a.nargs is None
        rep.check(ok, 'C09.R3', w, 'documented solver flag %s (%s%s)' % (flag, action, ', int' if typ else ''), got=repr(a), construct='flag %s declaration' % flag)
    # numagents is compared with 2 and 3
    f = repo.function('_import_from_file', repo.rel('solver', 'fileIO.py'))
    consts = set()
    for fn in repo.all_funcs():
        if fn.relpath != f.relpath:
            continue
        # names that hold the number of agents: bound from an expression mentioning NUMAGENTS, or a parameter called num_agents
        aliases = {a for a in fn.params if 'num' in a and 'agent' in a}
        for n in ast.walk(fn.node):
            if isinstance(n, ast.Assign) and len(n.targets) == 1 and isinstance(n.targets[0], ast.Name) and 'NUMAGENTS' in ast.unparse(n.value):
                aliases.add(n.targets[0].id)
        def is_na(e):
            return 'NUMAGENTS' in ast.unparse(e) or (isinstance(e, ast.Name) and e.id in aliases)
        for n in ast.walk(fn.node):
            if isinstance(n, ast.Compare) and len(n.ops) == 1 and isinstance(n.ops[0], (ast.Eq, ast.NotEq)):
                l, r = n.left, n.comparators[0]
                for a, b in ((l, r), (r, l)):
                    if is_na(a) and isinstance(b, ast.Constant) and isinstance(b.value, int):
                        consts.add(b.value)
            if isinstance(n, ast.Compare) and len(n.ops) == 1 and isinstance(n.ops[0], ast.In) and is_na(n.left) and isinstance(n.comparators[0], (ast.Tuple, ast.List, ast.Set)):
                consts |= {e.value for e in n.comparators[0].elts if isinstance(e, ast.Constant)}
            if isinstance(n, ast.Match) and is_na(n.subject):
                for c in n.cases:
                    if isinstance(c.pattern, ast.MatchValue) and isinstance(c.pattern.value, ast.Constant):
                        consts.add(c.pattern.value.value)
    # one of the two documented values is enough to tell the formats apart (`== 3` / else); which sections each value
    # selects is decided by the reader model for -na 2 and for -na 3 (C10.R2, quoted in R2)
    rep.check(bool({2, 3} & consts) and consts <= {2, 3}, 'C09.R3', f.where, '-na 2 selects the 2-agent format and -na 3 the 3-agent format: the reader branches on these values only', got=sorted(consts),
              want='2 and / or 3', construct='numagents values %s' % sorted(consts))


def check_integers(rep, repo):
    """R4: every numeric column is produced by an integer-valued expression (the reader calls int() on the token)."""
    from .c08 import check_spread
    from ..report import Report
    # re-use C08.R4's integrality obligation under this rule id
    class Proxy:
        def __init__(self, rep): self.rep = rep
        def __getattr__(self, k): return getattr(self.rep, k)
        def check(self, cond, rule, *a, **kw): return self.rep.check(cond, 'C09.R4' if rule == 'C08.R4' else rule, *a, **kw)
        def fail(self, rule, *a, **kw): return self.rep.fail('C09.R4' if rule == 'C08.R4' else rule, *a, **kw)
        def ok(self, rule, *a, **kw): return self.rep.ok('C09.R4' if rule == 'C08.R4' else rule, *a, **kw)
        def inconclusive(self, rule, *a, **kw): return self.rep.inconclusive('C09.R4' if rule == 'C08.R4' else rule, *a, **kw)
    for cls in ('Generator_ha_sm_hr', 'Generator_spa'):
        try:
            check_spread(Proxy(rep), writer_facts(repo, cls, True), cls)
        except AnalysisError as e:
            rep.inconclusive('C09.R4', repo.method(cls, 'generate_instances').where, 'quota columns are integer-valued', got=str(e))
    # look-up totality: the reader's key is (pair.lecturerID, pair.studentID) for every pair under -twopl (C10.R4) and the generator lists a
    # student for a lecturer iff the student ranks one of the lecturer's projects (C12.R1/R2/R4): cross-reference
    rep.ok('C09.R4', 'sa/props/c10.py + sa/props/c12.py', 'rank look-up keys (lecturer, student) are exactly the pairs C12 proves the generator writes (see C10.R4, C12.R1-R4 verdicts)',
           got='cross-reference')
