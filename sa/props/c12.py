"""C12 -- second-side lists rank exactly the agents that find them acceptable (DESIGN.md section 5, C12)."""
import ast

from ..terms import *
from ..absint import Interp, iter_effects
from ..shapes import empty_lists_of
from ..loader import AnalysisError

RULES = {
    'C12.R1': 'inversion schema: second-side lists = scatter(init [], key a-1, value i+1) over EVERY (i, a) with a in first-side list i; one list per second-side agent',
    'C12.R2': 'each (agent, ranked agent) pair occurs once: SPA builds the student->lecturer lists through a de-duplicating structure indexed by lecturer (mask / set / membership test)',
    'C12.R3': 'permutation only: between the inversion and the returned lists only shuffling / sorting is applied',
    'C12.R4': 'caller agreement: HA/SM/HR invert the first-side lists over n2 agents; SPA inverts the student->lecturer lists over n3 lecturers, with lecturers looked up in the project->lecturer table that is written to the file',
}


def check_own_line(rep, repo, rule, what):
    """the preference text on an agent's line is computed for THAT agent: no field of a line reads a variable carried over
    from the line of an earlier agent (an empty or skipped list must not inherit the previous one's text)"""
    from ..writerfacts import writer_facts, stale_line_fields
    from ..loader import AnalysisError
    for cls in ('Generator_ha_sm_hr', 'Generator_spa'):
        try:
            wf_ = writer_facts(repo, cls, True)
            stale = stale_line_fields(wf_)
        except (AnalysisError, Unknown):
            continue                     # the writer itself is judged by C08 / C09
        rep.check(not stale, rule, wf_.ci.where, '%s: every field of an agent\'s line is computed in that agent\'s own iteration (%s)' % (what, cls),
                  got=['line kind %d field %d reads %s as the previous line left it' % s_ for s_ in stale[:3]] or 'no carried value', want='set for every agent', construct='%s line text carried over from the previous agent' % cls)


def run(rep, repo, tier):
    for k, v in RULES.items():
        rep.rule(k, v)
    from ..defined import check_defined
    check_defined(rep, repo, 'C12.R3', [repo.method(c_, 'generate_instances', required=False) for c_ in ('Generator_ha_sm_hr', 'Generator_spa')] + [repo.method('Generator', '__init__', required=False)], 'instance generation')
    rep.assumptions += ['first-side lists have distinct entries (np.random.choice(..., replace=False): C08.R5 / C17.R5)', 'random.shuffle permutes in place (A4)']
    f = repo.function('create_pref_lists_from_other_lists')
    lists_p, n_p = S(f.params[0]), S(f.params[1])
    it = Interp(repo)
    try:
        effs, rv = it.run(f, {})
    except Unknown as u:
        rep.inconclusive('C12.R1', f.where, 'the inversion function is inside the interpreted fragment', got=str(u))
        return
    if not (rv[0] == 'tuple' and len(rv[1]) == 2):
        rep.inconclusive('C12.R1', f.where, 'the inversion returns (lists, tie indicators)', got=show(rv)[:160])
        return
    lists = rv[1][0]
    check_own_line(rep, repo, 'C12.R3', 'the list written for an agent is that agent\'s list')
    # entries for which the function raises instead of filing them (a range validation): the conditions under which a raise sits
    rejecting = []
    for e, ctx in iter_effects(effs):
        if e.kind == 'raise':
            conds = [(c.cond if br else NOT(c.cond)) for c, br in ctx if c.kind == 'if' and br is not None]
            if conds:
                rejecting.append(AND(*conds))
    check_inversion(rep, f, lists, lists_p, n_p, rejecting)
    # R3: operations applied to the lists
    bad = []
    for e, ctx in iter_effects(effs):
        if e.kind == 'expr' and e.term[0] == 'call':
            fn = show(e.term[1])
            if fn in ('random.shuffle', 'np.random.shuffle'):
                continue
            if e.term[1][0] == 'attr' and e.term[1][2] in ('sort', 'reverse'):
                continue
            if e.term[1][0] == 'attr' and e.term[1][2] in ('pop', 'remove', 'clear', 'insert') or fn in ('random.sample',):
                bad.append((e, fn))
            if e.term[1][0] == 'attr' and e.term[1][2] in ('append', 'extend', 'add', 'update') and e.term[1][1][0] in ('bvar', 'idx') \
                    and any(c.kind in ('for', 'while', 'iter') for c, _ in ctx):
                # an element added to a list reached through a loop variable / a slot, outside the scatter itself (which the
                # interpreter turns into the scatter term and does not report as a call)
                bad.append((e, fn))
        if e.kind == 'append' and e.target[0] in ('bvar', 'idx'):
            bad.append((e, 'element added: %s.%s(%s)' % (show(e.target)[:40], e.op, show(e.value)[:40])))
        if e.kind == 'augstore' and e.target[0] in ('bvar',):
            bad.append((e, 'list extended in place: ' + show(e.target)[:60]))
        if e.kind in ('store', 'augstore') and e.target[0] == 'idx':
            bad.append((e, 'slot assignment ' + show(e.target)[:60]))
    # the returned lists must be the scattered lists themselves (not a sampled / sliced copy)
    rep.check(not bad, 'C12.R3', f.where, 'only permutations are applied to the inverted lists', got=[b[1] for b in bad][:3], want='shuffle only',
              construct='list mutated by %s' % (bad[0][1] if bad else ''), loc=bad[0][0].loc if bad else None)
    shuffles = [e for e, c in iter_effects(effs) if e.kind == 'expr' and e.term[0] == 'call' and show(e.term[1]) in ('random.shuffle', 'np.random.shuffle')]
    rep.check(bool(shuffles), 'C12.R3', f.where, 'each second-side list is put in random order', got='%d shuffle sites' % len(shuffles), construct='no shuffle')
    check_spa_lists(rep, repo)
    check_callers(rep, repo, f)


def dict_groups_as_scatter(lists):
    """[G.get(j, []) for j in range(1, n + 1)]  with  G = {key: [values appended in order]}  is the scatter of the values into
    n lists at index key - 1 (agents that never occur as a key keep an empty list in place)"""
    c = lists
    if c[0] == 'cat':
        parts = [p_ for p_ in c[1] if p_ != ('list', ())]
        c = parts[0] if len(parts) == 1 else c
    if not (c[0] == 'comp' and len(c[1]) == 1 and c[1][0][1] == TRUE):
        return lists
    b = c[1][0][0]
    d = b[3]
    v = c[2]
    if not (d[0] == 'call' and d[1] == S('range') and len(d[2]) == 2 and d[2][0] == C(1) and d[2][1][0] == 'bin' and d[2][1][1] == 'Add' and C(1) in (d[2][1][2], d[2][1][3])):
        return lists
    n = d[2][1][2] if d[2][1][3] == C(1) else d[2][1][3]
    G = None
    if v[0] == 'call' and v[1][0] == 'attr' and v[1][2] == 'get' and len(v[2]) == 2 and v[2][0] == b and v[2][1] == ('list', ()):
        G = v[1][1]
    def all_keys_dict(pre):
        # {k: [] for k in range(1, n + 1)}: every agent has its (empty) list from the start
        return pre[0] == 'dictcomp' and len(pre[1]) == 1 and pre[1][0][1] == TRUE and pre[2] == pre[1][0][0] and pre[3] == ('list', ()) and pre[1][0][0][3] == d
    if G is None and v[0] == 'idx' and v[2] == b and v[1][0] == 'accum' and all_keys_dict(v[1][1]):
        G = v[1]
    if G is None or not (G[0] == 'accum' and (G[1] == ('dict', ()) or all_keys_dict(G[1])) and all(e[0] == 'appendidx' for e in G[2])):
        return lists
    def strip_int(k):
        while k[0] == 'call' and k[1] == S('int') and len(k[2]) == 1:
            k = k[2][0]
        return k
    fresh = ('bvar', -31, '_', CALL(S('range'), [n]))
    pre = ('comp', ((fresh, TRUE),), ('list', ()))
    entries = tuple((op, BIN('Sub', strip_int(idx), C(1)), val, ch) for op, idx, val, ch in G[2])
    return ('accum', pre, entries) + tuple(G[3:])


def check_inversion(rep, f, lists, lists_p, n_p, rejecting=()):
    w = f.where
    lists = dict_groups_as_scatter(lists)
    if lists[0] != 'accum':
        txt = show(lists)[:200]
        pad = contains(lists, lambda x: x[0] == 'bin' and x[1] == 'Mult' and (x[2] == ('list', (('list', ()),)) or x[3] == ('list', (('list', ()),))))
        def over_present_keys(x):
            # [D[k] for k in sorted(D)] / for k in D: only the keys that occur, in order - positions are ranks among them
            if x[0] != 'comp' or len(x[1]) != 1:
                return False
            b_ = x[1][0][0]
            d_ = b_[3]
            while d_[0] == 'call' and d_[1] in (S('sorted'), S('list'), S('tuple')) and len(d_[2]) == 1:
                d_ = d_[2][0]
            if d_[0] == 'call' and d_[1][0] == 'attr' and d_[1][2] == 'keys' and not d_[2]:
                d_ = d_[1][1]
            return d_[0] == 'accum' and d_[1] == ('dict', ()) and x[2] == I(d_, b_)
        if contains(lists, over_present_keys):
            rep.fail('C12.R1', w, 'the list of second-side agent a sits at position a-1 (agents nobody ranks keep an empty list in place)', got=txt,
                     want='lists indexed by agent id', construct='inverted lists compacted / padded instead of indexed by agent')
        elif lists[0] == 'cat' and (pad or contains(lists, lambda x: x[0] == 'call' and x[1] == S('sorted'))):
            rep.fail('C12.R1', w, 'the list of second-side agent a sits at position a-1 (agents nobody ranks keep an empty list in place)', got=txt,
                     want='lists indexed by agent id', construct='inverted lists compacted / padded instead of indexed by agent')
        else:
            rep.inconclusive('C12.R1', w, 'second-side lists are built by a recognised scatter', got=txt)
        return
    pre, entries = lists[1], lists[2]
    n = empty_lists_of(pre)
    rep.check(n == n_p, 'C12.R1', w, 'one (initially empty) list per second-side agent', got=show(n) if n is not None else show(pre)[:80], want=show(n_p),
              construct='inverted list count %s' % (show(n) if n is not None else '?'))
    if len(entries) != 1:
        rep.fail('C12.R1', w, 'a single scatter fills the lists', got='%d update sites' % len(entries), construct='inversion update sites %d' % len(entries))
        return
    op, idx, val, ch = entries[0]
    ok_dom = len(ch) == 2 and ch[0][0][3] == lists_p and ch[1][0][3] == ch[0][0] and ch[0][1] == TRUE
    if not ok_dom:
        rep.fail('C12.R1', w, 'the scatter visits every entry a of every first-side list i', got=[show(b[3])[:50] for b, _ in ch], want='for i, list in enumerate(lists): for a in list',
                 construct='inversion domain')
        return
    rows, elem = ch[0][0], ch[1][0]
    from ..terms import simp, as_cond
    guard = ch[1][1]
    if guard != TRUE and any(show(simp(as_cond(NOT(r_)))) == show(simp(as_cond(guard))) for r_ in rejecting):
        guard = TRUE            # the entries outside the guard are not dropped: the function raises for them
    rep.check(guard == TRUE, 'C12.R1', w, 'no entry is filtered out (an entry that is refused with an exception is not filtered)', got=show(ch[1][1]), want='unconditional', construct='inversion filtered by %s' % show(ch[1][1]).replace(show(elem), 'a'))
    rep.check(op == 'appendidx', 'C12.R1', w, 'entries are appended', got=op, construct='inversion op %s' % op)
    rep.check(idx == BIN('Sub', elem, C(1)), 'C12.R1', w, 'agent i is filed in the list of the agent a it ranks (index a - 1)', got=show(idx).replace(show(elem), 'a').replace(show(rows), 'list'),
              want='a - 1', construct='inversion key %s' % show(idx).replace(show(elem), 'a').replace(show(rows), 'list'))
    want_v = BIN('Add', ('indexof', rows), C(1))
    rep.check(val == want_v, 'C12.R1', w, 'what is filed is the id (i + 1) of the ranking agent', got=show(val).replace(show(rows), 'list'), want='i + 1',
              construct='inversion value %s' % show(val).replace(show(rows), 'list').replace(show(elem), 'a'))


def check_spa_lists(rep, repo):
    f = repo.method('Generator_spa', 'create_student_lec_lists')
    w = f.where
    prefs_p, pl_p = S(f.params[1]), S(f.params[2])
    try:
        effs, rv = Interp(repo).run(f, {})
    except Unknown as u:
        rep.inconclusive('C12.R2', w, 'the student->lecturer list builder is inside the interpreted fragment', got=str(u))
        return
    outer = rv
    if outer[0] == 'cat':
        parts = [p for p in outer[1] if p != ('list', ())]
        outer = parts[0] if len(parts) == 1 else outer
    if not (outer[0] == 'comp' and len(outer[1]) == 1):
        rep.inconclusive('C12.R2', w, 'one lecturer list per student', got=show(rv)[:200])
        return
    sb = outer[1][0][0]
    dom = sb[3]
    # the student's own list: prefs[st] (index loop) or the binder itself (element loop)
    if dom == CALL(S('range'), [CALL(S('len'), [prefs_p])]):
        own = I(prefs_p, sb)
    elif dom == prefs_p:
        own = sb
    else:
        rep.fail('C12.R2', w, 'one lecturer list per student, in student order', got=show(dom)[:80], construct='student loop domain')
        return
    inner = outer[2]
    lec_of = lambda proj: BIN('Sub', I(pl_p, BIN('Sub', proj, C(1))), C(1))     # project_lecturers[proj - 1] - 1   (0-based lecturer)
    lec_id = lambda proj: I(pl_p, BIN('Sub', proj, C(1)))

    def unpad(t):
        # ([pad] + list(table))[proj]  is  table[proj - 1]  for the project numbers 1..n2 (a padded look-up table)
        if t[0] == 'idx':
            base = t[1]
            parts = list(base[1]) if base[0] == 'cat' else ([base[2], base[3]] if (base[0] == 'bin' and base[1] == 'Add') else None)
            if parts and len(parts) == 2 and parts[0][0] == 'list' and len(parts[0][1]) == 1:
                tab = parts[1]
                while tab[0] == 'call' and tab[1] in (S('list'), S('tuple')) and len(tab[2]) == 1:
                    tab = tab[2][0]
                return I(tab, BIN('Sub', t[2], C(1)))
        return t

    def lookup_ok(t, proj):
        return unpad(t) in (lec_id(proj), lec_of(proj))

    kind = None
    problem = None
    # (a) boolean mask: [k+1 for k, present in enumerate(mask) if present], mask = scatter(True at lecturer index)
    c = inner
    if c[0] == 'cat':
        parts = [p for p in c[1] if p != ('list', ())]
        c = parts[0] if len(parts) == 1 else c
    if c[0] == 'comp' and len(c[1]) == 1 and c[1][0][0][3][0] == 'accum':
        mb, g = c[1][0]
        mask = mb[3]
        if g == mb and c[2] == BIN('Add', ('indexof', mb), C(1)) and len(mask[2]) == 1:
            op, idx, val, ch = mask[2][0]
            if op == 'setidx' and val == TRUE and len(ch) == 1 and ch[0][0][3] == own and ch[0][1] == TRUE:
                kind = 'mask'
                proj = ch[0][0]
                if idx != lec_of(proj):
                    problem = ('the mask is indexed by %s, not by the lecturer of the project looked up in the project->lecturer table' % show(idx).replace(show(proj), 'proj'), idx)
    # (a') the same mask read by position:  [lec for lec in range(1, n3 + 1) if mask[lec - 1]]  (itertools.compress)
    while c[0] == 'call' and c[1] in (S('list'), S('tuple')) and len(c[2]) == 1:
        c = c[2][0]
    if kind is None and c[0] == 'comp' and len(c[1]) == 1 and c[2] == c[1][0][0]:
        lb, g = c[1][0]
        d_ = lb[3]
        if d_[0] == 'call' and d_[1] == S('range') and len(d_[2]) == 2 and d_[2][0] == C(1) and g[0] == 'idx' and g[2] == BIN('Sub', lb, C(1)) and g[1][0] == 'accum' \
                and g[1][1][0] == 'bin' and g[1][1][1] == 'Mult' and len(g[1][2]) == 1:
            mask = g[1]
            size = mask[1][3] if mask[1][2][0] == 'list' else mask[1][2]
            op, idx, val, ch = mask[2][0]
            if op == 'setidx' and val == TRUE and len(ch) == 1 and ch[0][0][3] == own and ch[0][1] == TRUE and d_[2][1] in (BIN('Add', size, C(1)), BIN('Add', C(1), size)):
                kind = 'mask'
                proj = ch[0][0]
                if idx != lec_of(proj):
                    problem = ('the mask is indexed by %s, not by the lecturer of the project looked up in the project->lecturer table' % show(idx).replace(show(proj), 'proj'), idx)
    # (b) set: sorted(set(lookup(p) for p in own)) / sorted({..})
    if kind is None and c[0] == 'call' and c[1] == S('sorted') and len(c[2]) == 1:
        s_ = c[2][0]
        was_set = False
        if s_[0] == 'call' and s_[1] in (S('set'), S('frozenset')) and len(s_[2]) == 1:
            s_, was_set = s_[2][0], True
        if s_[0] == 'setcomp':
            s_, was_set = ('comp', s_[1], s_[2]), True
        if not was_set and s_[0] == 'comp' and len(s_[1]) == 1 and s_[1][0][0][3][0] == 'call' and show(s_[1][0][0][3][1]).split('.')[-1] == 'groupby':
            # sorted(key for key, group in groupby(...)): the grouping decides (case (e) below); sorting the keys afterwards does
            # not merge groups that were not adjacent
            c = s_
        elif not was_set and s_[0] == 'comp' and len(s_[1]) == 1 and s_[1][0][0][3] == own and s_[1][0][1] != TRUE:
            # sorted([lookup(p) for p in own if <not seen before>]): the filter does the de-duplication - judged below, on the list
            c = s_
        elif not was_set and s_[0] == 'comp' and len(s_[1]) == 1 and s_[1][0][0][3] == own and s_[1][0][1] == TRUE and not contains(s_[2], lambda x: x[0] in ('carried', 'prefix')):
            # sorted(lookup(p) for p in own): one entry per ranked PROJECT, nothing filtered, no set: a lecturer offering two of the
            # student's projects is listed twice
            rep.fail('C12.R2', w, "a student's lecturers are de-duplicated over the whole list (a lecturer whose projects are ranked non-adjacently must still appear once)",
                     got='one entry per ranked project, never filtered: ' + show(c)[:120], want='mask / set / membership test', construct='no de-duplication of the lecturers of a student')
            return
        elif was_set and s_[0] == 'comp' and len(s_[1]) == 1 and s_[1][0][0][3] == own and s_[1][0][1] == TRUE:
            kind = 'set'
            proj = s_[1][0][0]
            if unpad(s_[2]) != lec_id(proj):
                problem = ('the set collects %s, not the lecturer of the project looked up in the project->lecturer table' % show(s_[2]).replace(show(proj), 'proj'), s_[2])
    if kind is None and c[0] == 'call' and c[1] == S('sorted') and len(c[2]) == 1 and c[2][0][0] == 'accum' and c[2][0][1] in (CALL(S('set'), []), ('list', ())):
        ent = c[2][0][2]
        if len(ent) == 1 and ent[0][0] == 'setadd' and len(ent[0][3]) == 1 and ent[0][3][0][0][3] == own and ent[0][3][0][1] == TRUE:
            kind = 'set'
            proj = ent[0][3][0][0]
            if ent[0][2] != lec_id(proj):
                problem = ('the set collects %s, not the lecturer of the project looked up in the project->lecturer table' % show(ent[0][2]).replace(show(proj), 'proj'), ent[0][2])
    # (d) every lecturer number in order, kept iff it occurs among the lecturers of the ranked projects:
    #     [lec for lec in range(1, n3 + 1) if lec in COLL],  COLL = a list / set of lookup(p) for p in own
    def collection_of(t):
        while t[0] == 'call' and t[1] in (S('set'), S('frozenset'), S('list'), S('tuple'), S('sorted')) and len(t[2]) == 1:
            t = t[2][0]
        if t[0] in ('comp', 'setcomp') and len(t[1]) == 1 and t[1][0][0][3] == own and t[1][0][1] == TRUE:
            return t[1][0][0], t[2]
        if t[0] == 'accum' and t[1] in (CALL(S('set'), []), ('list', ()), ('set', ())) and len(t[2]) == 1 and t[2][0][0] in ('setadd', 'append') \
                and len(t[2][0][3]) == 1 and t[2][0][3][0][0][3] == own and t[2][0][3][0][1] == TRUE:
            return t[2][0][3][0][0], t[2][0][2]
        return None
    if kind is None and c[0] == 'comp' and len(c[1]) == 1 and c[2] == c[1][0][0]:
        lb, g = c[1][0]
        d_ = lb[3]
        full_range = d_[0] == 'call' and d_[1] == S('range') and len(d_[2]) == 2 and d_[2][0] == C(1) and d_[2][1] in (BIN('Add', S(f.params[3]), C(1)), BIN('Add', C(1), S(f.params[3]))) \
            if len(f.params) > 3 else False
        if full_range and g[0] == 'cmp' and g[1] == 'In' and g[2] == lb:
            co = collection_of(g[3])
            if co is not None:
                kind = 'membership over all lecturers'
                proj, v_ = co
                if v_ != lec_id(proj):
                    problem = ('the collection holds %s, not the lecturer of the project looked up in the project->lecturer table' % show(v_).replace(show(proj), 'proj'), v_)
    # (c) membership-guarded append:  if lec not in lst: lst.append(lec)
    if kind is None and c[0] == 'comp' and len(c[1]) == 1 and c[1][0][0][3] == own:
        proj, g = c[1][0]
        conj = list(g[2]) if (g[0] == 'bool' and g[1] == 'and') else [g]
        if any(x[0] == 'cmp' and x[1] == 'NotIn' for x in conj) or any(x[0] == 'not' and x[1][0] == 'cmp' and x[1][1] == 'In' for x in conj):
            kind = 'membership'
            if not lookup_ok(c[2], proj):
                problem = ('the list collects %s' % show(c[2]).replace(show(proj), 'proj'), c[2])
        elif contains(g, lambda x: x[0] == 'idx' and x[1][0] in ('carried', 'prefix') and x[2] != C(-1)):
            # a table carried from student to student and read at the lecturer's own slot: a mask whose correctness depends on
            # how it is cleared between students - outside the fragment, not an adjacent-only test
            mname = [x[1][1] for x in walk(g) if x[0] == 'idx' and x[1][0] in ('carried', 'prefix')][0]
            # what is stored as the "seen" marker?  A 0-based position (enumerate without start) is falsy for the first entry:
            # `if not seen[lec]` then treats the lecturer of the first choice as never seen
            zero_based = set()
            for n_ in ast.walk(f.node):
                if isinstance(n_, ast.For) and isinstance(n_.iter, ast.Call) and isinstance(n_.iter.func, ast.Name) and n_.iter.func.id == 'enumerate' \
                        and len(n_.iter.args) == 1 and not n_.iter.keywords and isinstance(n_.target, ast.Tuple) and isinstance(n_.target.elts[0], ast.Name):
                    zero_based.add(n_.target.elts[0].id)
            stored = [n_.value for n_ in ast.walk(f.node) if isinstance(n_, ast.Assign) and len(n_.targets) == 1 and isinstance(n_.targets[0], ast.Subscript)
                      and isinstance(n_.targets[0].value, ast.Name) and n_.targets[0].value.id == mname]
            falsy = [v_ for v_ in stored if (isinstance(v_, ast.Name) and v_.id in zero_based) or (isinstance(v_, ast.Constant) and not v_.value and v_.value is not False)]
            truth_test = g[0] == 'not' and g[1][0] == 'idx'
            if falsy and truth_test:
                rep.fail('C12.R2', w, 'the "already listed" marker of a lecturer is true once the lecturer was listed', got='%s[lecturer] = %s is tested for truth: the value is 0 for the first entry of the list, so that lecturer is listed again' % (mname, ast.unparse(falsy[0])),
                         want='a marker that is never falsy (True, or `is None` as the test)', construct='seen-marker %s can be 0' % mname)
                return
            rep.inconclusive('C12.R2', w, 'the de-duplicating structure is recognised (mask / set / membership)', got='a mask shared by all students: ' + show(g)[:120])
            return
        elif g == TRUE and c[0] == 'comp' and not contains(inner, lambda x: x[0] in ('setcomp', 'distinct') or (x[0] == 'call' and x[1] in (S('set'), S('frozenset'), A(S('dict'), 'fromkeys'), A(S('np'), 'unique')))):
            # one entry per ranked PROJECT, nothing filtered, no set anywhere: a lecturer offering two of the student's projects is listed twice
            rep.fail('C12.R2', w, "a student's lecturers are de-duplicated over the whole list (a lecturer whose projects are ranked non-adjacently must still appear once)",
                     got='one entry per ranked project, never filtered: ' + show(inner)[:120], want='mask / set / membership test', construct='no de-duplication of the lecturers of a student')
            return
        elif contains(g, lambda x: x[0] == 'idx' and x[2] == C(-1)) or contains(g, lambda x: x[0] == 'carried' or x[0] == 'prefix'):
            rep.fail('C12.R2', w, "a student's lecturers are de-duplicated over the whole list (a lecturer whose projects are ranked non-adjacently must still appear once)",
                     got='entries are skipped only when equal to the previous one: ' + show(g)[:120], want='mask / set / membership test', construct='adjacent-only de-duplication')
            return
    # (e) itertools.groupby: merges EQUAL NEIGHBOURS only - a de-duplication when its argument is sorted, adjacent-only otherwise
    if kind is None and c[0] == 'comp' and len(c[1]) == 1:
        gb = c[1][0][0][3]
        if gb[0] == 'call' and show(gb[1]).split('.')[-1] == 'groupby' and len(gb[2]) == 1 and not (len(gb) > 3 and gb[3]):
            arg = gb[2][0]
            if arg[0] == 'call' and arg[1] == S('sorted') and len(arg[2]) == 1 and c[2] == I(c[1][0][0], C(0)):
                co = arg[2][0]
                if co[0] == 'comp' and len(co[1]) == 1 and co[1][0][0][3] == own:
                    kind = 'sorted groups'
                    proj = co[1][0][0]
                    if co[2] != lec_id(proj):
                        problem = ('the groups hold %s, not the lecturer of the project looked up in the project->lecturer table' % show(co[2]).replace(show(proj), 'proj'), co[2])
            else:
                rep.fail('C12.R2', w, "a student's lecturers are de-duplicated over the whole list (a lecturer whose projects are ranked non-adjacently must still appear once)",
                         got='groupby() over the lecturers in preference order merges equal neighbours only: ' + show(arg)[:100], want='mask / set / membership test (or groupby over the sorted lecturers)',
                         construct='adjacent-only de-duplication')
                return
    if kind is None and inner[0] == 'accum':
        # loop form of (c) or of an adjacent-only variant
        for op, idx, val, ch in inner[2]:
            g = ch[-1][1]
            if contains(g, lambda x: x[0] == 'idx' and x[2] == C(-1)) or (contains(g, lambda x: x[0] in ('carried', 'prefix')) and not contains(g, lambda x: x[0] == 'cmp' and x[1] in ('In', 'NotIn'))):
                rep.fail('C12.R2', w, "a student's lecturers are de-duplicated over the whole list (a lecturer whose projects are ranked non-adjacently must still appear once)",
                         got='entries are skipped only relative to the previously added one: ' + show(g)[:120], want='mask / set / membership test', construct='adjacent-only de-duplication')
                return
            if contains(g, lambda x: x[0] == 'cmp' and x[1] in ('In', 'NotIn')):
                kind = 'membership'
                proj = ch[-1][0]
                if not lookup_ok(val, proj):
                    problem = ('the list collects %s' % show(val)[:80], val)
    if kind is None:
        # the lookup itself may still be judged: a lecturer derived without the project->lecturer table is wrong whatever the dedup structure
        uses_table = contains(inner, lambda x: x[0] == 'idx' and x[1] == pl_p)
        if not uses_table:
            rep.fail('C12.R4', w, 'the lecturer of a ranked project is looked up in the project->lecturer table that is written to the file', got=show(inner)[:200],
                     want='project_lecturers[proj - 1]', construct='lecturer of a project computed without the project->lecturer table')
            return
        rep.inconclusive('C12.R2', w, 'the de-duplicating structure is recognised (mask / set / membership)', got=show(inner)[:200])
        return
    rep.ok('C12.R2', w, 'each lecturer occurs at most once per student (%s indexed by lecturer)' % kind, got=kind)
    if problem:
        uses_table = contains(problem[1], lambda x: x[0] == 'idx' and x[1] == pl_p)
        rep.fail('C12.R4', w, 'the lecturer of a ranked project is project_lecturers[proj - 1]', got=problem[0], want='project_lecturers[proj - 1]',
                 construct='lecturer lookup: ' + problem[0][:100] if uses_table else 'lecturer of a project computed without the project->lecturer table')
    else:
        rep.ok('C12.R4', w, 'lecturers are looked up as project_lecturers[proj - 1]', got='table lookup')


def check_callers(rep, repo, inv):
    for cls, want_n, want_lists in (('Generator_ha_sm_hr', 'n2', 'first'), ('Generator_spa', 'n3', 'studentlec')):
        g = repo.method(cls, 'generate_instances')
        calls = [n for n in ast.walk(g.node) if isinstance(n, ast.Call) and isinstance(n.func, ast.Name) and n.func.id == inv.name]
        if not calls:
            # through a wrapper in the same class
            wrappers = [m for m in repo.classes[cls].values() if any(isinstance(n, ast.Call) and isinstance(n.func, ast.Name) and n.func.id == inv.name for n in ast.walk(m.node))]
            if not wrappers:
                rep.fail('C12.R4', g.where, 'second-side lists are produced by the inversion', got='no call to %s' % inv.name, construct='%s: inversion not used' % cls)
                continue
            host = wrappers[0]
            calls = [n for n in ast.walk(host.node) if isinstance(n, ast.Call) and isinstance(n.func, ast.Name) and n.func.id == inv.name]
            g = host
        c = calls[0]
        args_ = list(c.args)
        gi = repo.method(cls, 'generate_instances')
        if g is not gi and args_:
            # the inversion is called in a helper method (possibly of a shared base class) with the helper's own parameters: follow
            # them to the arguments generate_instances passes
            ps = [p_ for p_ in g.params if p_ != 'self']
            outer = [n for n in ast.walk(gi.node) if isinstance(n, ast.Call) and isinstance(n.func, ast.Attribute) and n.func.attr == g.name]
            if len(outer) == 1 and not outer[0].keywords and not any(isinstance(a_, ast.Starred) for a_ in outer[0].args):
                m_ = dict(zip(ps, outer[0].args))
                mapped = [isinstance(a_, ast.Name) and a_.id in m_ for a_ in args_[:2]]
                if all(mapped):
                    args_ = [m_.get(a_.id, a_) if isinstance(a_, ast.Name) else a_ for a_ in args_]
                    g = gi
                elif any(mapped):
                    rep.inconclusive('C12.R4', g.where, '%s: the arguments of the inversion can be traced to generate_instances' % cls, got='some are parameters of %s, some are computed there' % g.name)
                    continue
            elif any(isinstance(a_, ast.Name) and a_.id in ps for a_ in args_[:2]):
                rep.inconclusive('C12.R4', g.where, '%s: the arguments of the inversion can be traced to generate_instances' % cls, got='%d call sites of %s' % (len(outer), g.name))
                continue
        a0 = ast.unparse(args_[0]) if args_ else ''
        a1 = ast.unparse(args_[1]) if len(args_) > 1 else ''
        # resolve simple locals / parameters to their origin
        def origin(expr):
            if isinstance(expr, ast.Name):
                for n in ast.walk(g.node):
                    if isinstance(n, ast.Assign) and len(n.targets) == 1:
                        t = n.targets[0]
                        if isinstance(t, ast.Name) and t.id == expr.id and isinstance(n.value, ast.Call):
                            return ast.unparse(n.value.func)
                        if isinstance(t, ast.Tuple) and any(isinstance(e, ast.Name) and e.id == expr.id for e in t.elts) and isinstance(n.value, (ast.Call, ast.IfExp)):
                            v = n.value if isinstance(n.value, ast.Call) else (n.value.body if isinstance(n.value.body, ast.Call) else n.value.orelse)
                            if isinstance(v, ast.Call):
                                return ast.unparse(v.func) + '[%d]' % [getattr(e, 'id', None) for e in t.elts].index(expr.id)
            return ast.unparse(expr)
        o0 = origin(args_[0]) if args_ else ''
        ok_n = a1.endswith('.' + want_n) or a1 == want_n
        rep.check(ok_n, 'C12.R4', g.where, '%s: one second-side list per %s' % (cls, 'lecturer (n3)' if want_n == 'n3' else 'second-side agent (n2)'), got=a1, want='args.' + want_n,
                  construct='%s inversion count %s' % (cls, a1), loc='%s:%d' % (g.relpath, c.lineno))
        if want_lists == 'first':
            ok_l = 'create_pref_lists_original' in o0
            rep.check(ok_l, 'C12.R4', g.where, '%s inverts the first-side preference lists' % cls, got='%s (from %s)' % (a0, o0), want='lists from create_pref_lists_original',
                      construct='%s inverted lists from %s' % (cls, o0), loc='%s:%d' % (g.relpath, c.lineno))
        else:
            ok_l = 'create_student_lec_lists' in o0 or 'create_student_lec_list' in o0
            rep.check(ok_l, 'C12.R4', g.where, '%s inverts the student->lecturer lists' % cls, got='%s (from %s)' % (a0, o0), want='lists from create_student_lec_lists',
                      construct='%s inverted lists from %s' % (cls, o0), loc='%s:%d' % (g.relpath, c.lineno))
    # SPA: the project->lecturer table used for the lists is the one written to the file
    gi = repo.method('Generator_spa', 'generate_instances')
    names_lec, names_inst = set(), set()
    for n in ast.walk(gi.node):
        if isinstance(n, ast.Call) and isinstance(n.func, ast.Attribute) and n.func.attr in ('create_student_lec_lists',):
            if len(n.args) >= 2:
                names_lec.add(ast.unparse(n.args[1]))
        if isinstance(n, ast.Call) and isinstance(n.func, ast.Attribute) and n.func.attr == 'create_instance':
            ci = repo.method('Generator_spa', 'create_instance')
            ps = ci.params[1:]
            if 'project_lecturers' in ps and ps.index('project_lecturers') < len(n.args):
                names_inst.add(ast.unparse(n.args[ps.index('project_lecturers')]))
    if names_lec and names_inst:
        rep.check(names_lec == names_inst, 'C12.R4', gi.where, 'the project->lecturer table used to build the lecturer lists is the one written to the file', got='%s vs %s' % (sorted(names_lec), sorted(names_inst)),
                  construct='two different project->lecturer tables')
