"""C14 -- a run that was cut short or proved infeasible never presents a matching (part; DESIGN.md section 5, C14).

Decided (structural, necessary conditions):
R1 solve/check typestate on the inlined LP run, per criterion and for the empty criterion list;
R3 run() returns the status of the latest solve, which reaches model.pulp_status;
R4 every statement of Model.get_results that emits the matching / a statistic / stability_correct is edge-dominated
   by the Timeout gate and by the Optimal gate, whose constants equal PuLP's LpStatus strings;
R5 brute-force results never read LP state.
Not decided: that a solve stopped by the time limit always makes total_s > time_limit (wall clock)."""
import ast

from ..terms import *
from ..absint import Interp, iter_effects
from ..cfg import CFG
from ..loader import AnalysisError
from .. import lp, lpfacts, spec, pulpfacts
from ..typestate import Walker

RULES = {
    'C14.R1': 'no solve is issued while the previous solve is unchecked, nor after a non-Optimal status was observed (typestate, loops to fixpoint, value-sensitive helper summaries)',
    'C14.R3': "run() returns LpStatus of the latest solve and Solver.solve stores exactly that in model.pulp_status",
    'C14.R6': 'the time limit handed to solve() is the one recorded on the model, on every path (the Timeout gate of get_results reads it from there)',
    'C14.R4': 'matching / statistics / stability_correct output is edge-dominated by the Timeout gate (limit set and (Not Solved or total_s > limit)) and by the Optimal gate',
    'C14.R5': 'brute-force results never read LP state (lp_var, varValue, pulp_status)',
}


def optimal_terms():
    c = pulpfacts.constants()
    out = {A(lp.MODEL, 'OPTIMAL_PULP_STATUS'), C('Optimal')}
    # the integer code of the Optimal status, for tests on prob.status itself (read from pulp/constants.py)
    code = c['names'].get('LpStatusOptimal')
    if isinstance(code, int):
        out.add(('rawcode', C(code)))
        out.add(('rawcode', S('LpStatusOptimal')))
    return out


def typestate_check(rep, repo, rule, configs, label=''):
    opt = optimal_terms()
    for pc, stab, crit in configs:
        r = lpfacts.get_run(repo, pc, stab, crit)
        w = Walker(opt)
        res = w.walk(r.effs, frozenset({('init', None)}))
        cfg = 'pc=%s stab=%s criteria=[%s]' % (pc, stab, ','.join('%s/%s' % (c[0], c[1]) for c in crit))
        rep.count('typestate_runs')
        rep.count('solve_sites_visited', w.solves)
        where = repo.method('LP_Solver', 'run').where
        if w.solves == 0:
            rep.fail(rule, where, 'the LP path reaches a solve [%s]' % cfg, got='no solve effect', construct='no solve [%s]' % ','.join(c[0] for c in crit))
            continue
        seen = set()
        for kind, e, last in w.violations:
            key = (kind, e.loc, last.loc if last is not None else None)
            if key in seen:
                continue
            seen.add(key)
            if kind == 'early-exit':
                rep.fail(rule, e.where, 'the remaining criteria are skipped only after a solve was seen not to be Optimal [%s]' % cfg,
                         got='the criterion loop is left during %s although no non-Optimal status has been observed (a criterion that performs no solve ends the run)' % show(e.value[1][0]),
                         want='return only when a status test found a non-Optimal status', construct='early exit without a failed solve in %s' % e.func.qualname, loc=e.loc)
                continue
            if kind == 'loop-early-exit':
                rep.fail(rule, e.where, 'a loop that solves once per rank is left early only after a solve was seen not to be Optimal [%s]' % cfg,
                         got='the loop at %s is left (break / return) after its solve at %s was found Optimal: the remaining ranks are never optimised' % (e.loc, last.loc if last is not None else '?'),
                         want='leave the loop only when a status test found a non-Optimal status', construct='rank loop left after an Optimal solve in %s' % e.func.qualname, loc=e.loc)
                continue
            if kind == 'unchecked':
                msg = 'solve at %s is issued while the status of the previous solve at %s has not been checked' % (e.loc, last.loc if last is not None else '?')
            else:
                msg = 'solve at %s is issued after a non-Optimal status was observed (last solve %s)' % (e.loc, last.loc if last is not None else 'none')
            rep.fail(rule, e.where, 'every solve is followed by a status check that stops the run before the next solve [%s]' % cfg,
                     got=msg, want='solve -> check -> (stop | next solve)', construct='%s solve in %s' % (kind, e.func.qualname), loc=e.loc)
        if not w.violations:
            rep.ok(rule, where, 'solve/check typestate holds [%s]' % cfg, got='%d solve sites, %d status tests, no unchecked re-solve' % (w.solves, w.checks))


def quick_configs():
    cfgs = [(False, False, [])]
    for name in spec.CRITERIA:
        n = spec.CRITERIA[name]['nextras']
        for ar in sorted({0, n}):
            cfgs.append((False, False, [lpfacts.crit_config(name, ar)]))
    # a criterion after another one (the dispatch loop's own check)
    cfgs.append((True, True, [lpfacts.crit_config('GENEROUS', 1), lpfacts.crit_config('MAXSIZE')]))
    cfgs.append((False, False, [lpfacts.crit_config('MAXSIZE'), lpfacts.crit_config('GREEDY', 0), lpfacts.crit_config('MINCOST', 2)]))
    return cfgs


def thorough_configs():
    names = list(spec.CRITERIA)
    cfgs = []
    for a in names:
        for b in names:
            if a != b:
                cfgs.append((False, False, [lpfacts.crit_config(a), lpfacts.crit_config(b)]))
    return cfgs


def run(rep, repo, tier):
    for k, v in RULES.items():
        rep.rule(k, v)
    from ..defined import check_defined
    check_defined(rep, repo, 'C14.R1', [repo.method('Solver', '__init__'), repo.method('Solver', 'solve'), repo.method('Solver', 'get_results_short'), repo.method('Solver', 'get_results_long')], 'solver path')
    rep.assumptions += ['A3 PuLP: LpStatus strings as in pulp/constants.py; a time-limited stop with an incumbent is reported Optimal',
                        'NOT decided: wall-clock relation between a time-limited solve and total_s']
    typestate_check(rep, repo, 'C14.R1', quick_configs() + (thorough_configs() if tier == 'thorough' else []))
    check_status_plumbing(rep, repo)
    check_output_gates(rep, repo)
    check_bf(rep, repo)
    check_limit_plumbing(rep, repo)


def check_limit_plumbing(rep, repo, rule='C14.R6'):
    """R6: the limit handed to Solver.solve is the limit get_results compares the elapsed time with, and the one the MILP
    solver is given: model.time_limit = <timeLimit parameter> is stored before the run starts"""
    f = repo.method('Solver', 'solve')
    ps = [p_ for p_ in f.params if p_ != 'self']
    if len(ps) < 2:
        rep.inconclusive(rule, f.where, 'solve(msg, timeLimit, threads, write) has a time limit parameter', got=ps)
        return
    lim = S(ps[1])
    try:
        effs, _ = Interp(repo).run(f, {p_: S(p_) for p_ in ps})
    except Unknown as u:
        rep.inconclusive(rule, f.where, 'Solver.solve is inside the interpreted fragment', got=str(u))
        return
    order = [e for e, c in iter_effects(effs)]
    stores = [e for e in order if e.kind == 'store' and e.target[0] == 'attr' and e.target[2] == 'time_limit']
    ok_store = bool(stores) and all(e.value == lim for e in stores)
    rep.check(ok_store, rule, f.where, 'the time limit given to solve() is recorded on the model (get_results decides Timeout from it)',
              got=[show(e.value) for e in stores] or 'model.time_limit is never set', want='self.model.time_limit = %s' % ps[1], construct='time limit not recorded on the model')
    # (whether the same limit is also handed to the MILP back end, and whether the store precedes the run, is not part of
    # the property: get_results reads model.time_limit after the run and decides Timeout from the elapsed time alone)
    conds = [c_ for e in stores for (c_, br) in [x for ee, ctx in iter_effects(effs) if ee is e for x in ctx] if c_.kind == 'if']
    rep.check(not conds, rule, f.where, 'the limit is recorded on every path (LP and brute force)', got=[show(c_.cond)[:60] for c_ in conds], construct='time limit recorded conditionally')


# ---- R3 -------------------------------------------------------------------------------------------------
def check_status_plumbing(rep, repo, rule='C14.R3'):
    r = lpfacts.get_run(repo, False, False, [lpfacts.crit_config('MAXSIZE')])
    runf = repo.method('LP_Solver', 'run')
    calls = [e for e, _ in iter_effects(r.effs) if e.kind == 'call' and e.target is runf]
    if not calls:
        rep.fail(rule, repo.method('Solver', 'solve').where, 'Solver.solve calls LP_Solver.run', got='no call', construct='run not called')
        return
    rv = calls[0].ret
    probs = list(r.it.lp_problems)
    ok = rv[0] == 'idx' and rv[1] == S('LpStatus') and rv[2][0] == 'attr' and rv[2][2] == 'status' and rv[2][1] in probs
    rep.check(ok, rule, runf.where, 'run() returns LpStatus[prob.status] of the problem that was solved', got=show(rv), want='LpStatus[self.prob.status]',
              construct='run return value ' + show(rv))
    stores = [e for e in r.of('store') if e.eff.target == A(lp.MODEL, 'pulp_status')]
    rep.check(len(stores) == 1 and stores[0].eff.value == rv and not stores[0].sym_ifs, rule, repo.method('Solver', 'solve').where,
              'model.pulp_status receives exactly the value returned by run()', got=[show(e.eff.value) for e in stores], want=show(rv),
              construct='pulp_status store')
    # the status is REPORTED: every result text that is not the Timeout notice carries 'pulp_status: ' + that very value
    gr = repo.method('Model', 'get_results')
    try:
        _, text = Interp(repo).run(gr, {p_: S(p_) for p_ in gr.params[1:]}, selfterm=lp.MODEL)
        # every leaf of the returned conditional text, refined by the tests passed on the way (a text printed after
        # `if outcome == 'Timeout': return` knows that the outcome is not the Timeout one)
        alts = [leaf for _, leaf in split_paths(text) if leaf != NONE]
        from .. import doc as _doc
        def has_status(t, items=None):
            items = _doc.doc_of(t) if items is None else items
            for a_, b_ in zip(items, items[1:]):
                if isinstance(a_, _doc.Lit) and a_.text.endswith('pulp_status: ') and isinstance(b_, _doc.Hole) and b_.term == A(lp.MODEL, 'pulp_status'):
                    return True
            return any(isinstance(i_, _doc.Alt) and has_status(None, i_.a) and has_status(None, i_.b) for i_ in items)
        def is_timeout(t, items=None):
            items = _doc.doc_of(t) if items is None else items
            return any((isinstance(i_, _doc.Lit) and 'Timeout' in i_.text) or (isinstance(i_, _doc.Alt) and is_timeout(None, i_.a) and is_timeout(None, i_.b)) for i_ in items)
        def has_status_anywhere(t):
            # the line may sit in a list of lines that is joined later: look at every string-building subterm
            if has_status(t):
                return True
            for x in walk(t):
                if x[0] in ('fstr', 'bin', 'call') and x is not t and contains(x, lambda y: y[0] == 'const' and isinstance(y[1], str) and 'pulp_status: ' in y[1]) \
                        and contains(x, lambda y: y == A(lp.MODEL, 'pulp_status')):
                    try:
                        if has_status(x):
                            return True
                    except Unknown:
                        pass
            return False
        def is_text(t):
            return _doc.stringy(t) or contains(t, lambda y: y[0] == 'const' and isinstance(y[1], str) and len(y[1]) > 3)
        alts = [t for t in alts if is_text(t)]          # (a value read back from a memo of rendered texts has no structure of its own)
        missing = [t for t in alts if not is_timeout(t) and not has_status_anywhere(t)]
        rep.check(bool(alts) and not missing, rule, gr.where, "every result text other than the Timeout notice reports 'pulp_status: ' followed by model.pulp_status",
                  got='%d of %d texts lack the status line' % (len(missing), len(alts)), want="'pulp_status: ' + self.pulp_status", construct='status line missing from the results')
    except Unknown as u:
        rep.inconclusive(rule, gr.where, 'get_results is inside the interpreted fragment', got=str(u))
    c = pulpfacts.constants()
    rep.check(spec.LPSTATUS_REQUIRED <= c['LpStatusStrings'], rule, 'pulp/constants.py', 'PuLP LpStatus strings are the documented five',
              got=sorted(c['LpStatusStrings']), want=sorted(spec.LPSTATUS_REQUIRED), construct='LpStatus table')


# ---- R4 -------------------------------------------------------------------------------------------------
def status_strings_compared(repo):
    """strings that `pulp_status` / `LpStatus[...]` / `.status` values are compared with (==, !=, in) in the solver package,
    module-level and class-level string constants resolved  ->  (set of strings, number of comparison sites)"""
    names = {}
    for rel, tree in repo.trees.items():
        for n in ast.walk(tree):
            if isinstance(n, ast.Assign) and len(n.targets) == 1:
                t = n.targets[0]
                nm = t.id if isinstance(t, ast.Name) else (t.attr if isinstance(t, ast.Attribute) else None)
                v = n.value
                if nm and isinstance(v, ast.Constant) and isinstance(v.value, str):
                    names.setdefault(nm, set()).add(v.value)
                elif nm and isinstance(v, ast.Subscript) and isinstance(v.value, ast.Name) and v.value.id == 'LpStatus' and isinstance(v.slice, (ast.Name, ast.Attribute)):
                    sv = pulpfacts.constants()['LpStatus'].get(v.slice.id if isinstance(v.slice, ast.Name) else v.slice.attr)
                    if isinstance(sv, str):
                        names.setdefault(nm, set()).add(sv)          # NAME = LpStatus[LpStatusOptimal]
                elif nm and isinstance(v, ast.Name) and v.id == nm:
                    pass                                              # class-level alias of the module constant of the same name
    out, sites = set(), 0
    solver_dir = repo.rel('solver')
    for rel, tree in repo.trees.items():
        if not rel.startswith(solver_dir):
            continue
        for n in ast.walk(tree):
            if not isinstance(n, ast.Compare):
                continue
            parts = [n.left] + list(n.comparators)
            def is_status(x):
                return any((isinstance(y, ast.Attribute) and y.attr in ('pulp_status',)) or (isinstance(y, ast.Subscript) and isinstance(y.value, ast.Name) and y.value.id == 'LpStatus')
                           or (isinstance(y, ast.Name) and y.id in ('status', 'pulp_status')) or (isinstance(y, ast.Call) and isinstance(y.func, ast.Name) and y.func.id == 'status_of')
                           for y in ast.walk(x))
            if not any(is_status(x) for x in parts):
                continue
            sites += 1
            for x in parts:
                if is_status(x):
                    continue
                for y in ([x] if not isinstance(x, (ast.Tuple, ast.List, ast.Set)) else x.elts):
                    if isinstance(y, ast.Constant) and isinstance(y.value, str):
                        out.add(y.value)
                    elif isinstance(y, (ast.Name, ast.Attribute)):
                        nm = y.id if isinstance(y, ast.Name) else y.attr
                        out |= names.get(nm, {'<unresolved %s>' % nm})
    return out, sites


def model_consts(repo):
    init = repo.method('Model', '__init__')
    out = {}
    for n in ast.walk(init.node):
        if isinstance(n, ast.Assign) and len(n.targets) == 1 and isinstance(n.targets[0], ast.Attribute) and isinstance(n.value, ast.Constant):
            out[n.targets[0].attr] = n.value.value
    return out


def lp_state_readers(repo):
    """Methods of Model that (transitively) read decision-variable values."""
    direct = set()
    calls = {}
    for cname in ('Model', 'Pair'):
      for name, f in repo.classes.get(cname, {}).items():
        if name in ('pulp_setup', '__init__'):
            continue
        cs = set()
        for n in ast.walk(f.node):
            if isinstance(n, ast.Attribute) and n.attr in ('varValue', 'lp_var'):
                direct.add(name)
            if isinstance(n, ast.Call) and isinstance(n.func, ast.Attribute) and (cname == 'Pair' or (isinstance(n.func.value, ast.Name) and n.func.value.id == 'self')):
                cs.add(n.func.attr)
            elif isinstance(n, ast.Call) and isinstance(n.func, ast.Attribute) and n.func.attr in repo.classes.get('Pair', {}):
                cs.add(n.func.attr)             # pair.is_matched(): a reader defined on the pair itself
        calls[name] = cs | calls.get(name, set())
    readers = set(direct)
    changed = True
    while changed:
        changed = False
        for name, cs in calls.items():
            if name not in readers and cs & readers:
                readers.add(name)
                changed = True
    return readers


def check_output_gates(rep, repo):
    rule = 'C14.R4'
    f = repo.method('Model', 'get_results')
    # a thin wrapper (memo, argument normalisation) hands the work to one rendering method: the gates live there
    for _ in range(3):
        mentions_status = any(isinstance(x, ast.Attribute) and x.attr == 'pulp_status' for c_ in ast.walk(f.node) if isinstance(c_, (ast.If, ast.IfExp)) for x in ast.walk(c_.test))
        if mentions_status:
            break
        callees = {x.func.attr for x in ast.walk(f.node) if isinstance(x, ast.Call) and isinstance(x.func, ast.Attribute) and isinstance(x.func.value, ast.Name)
                   and x.func.value.id == 'self' and x.func.attr in repo.classes['Model']}
        renderers = [c_ for c_ in callees if any(isinstance(x, ast.Attribute) and x.attr == 'pulp_status' for x in ast.walk(repo.classes['Model'][c_].node))]
        if len(renderers) != 1:
            break
        f = repo.classes['Model'][renderers[0]]
    consts = model_consts(repo)
    pc = pulpfacts.constants()
    if 'OPTIMAL_PULP_STATUS' not in consts and 'NOTSOLVED_PULP_STATUS' not in consts:
        # the status strings are not attributes of the model (module-level constants, literals, an enum): judge every string a
        # status is compared with anywhere in the solver package
        compared, sites = status_strings_compared(repo)
        valid = set(pc['LpStatus'].values())
        bad_ = sorted(x for x in compared if x not in valid)
        if any(x.startswith('<unresolved') for x in bad_):
            rep.inconclusive(rule, f.where, 'the strings a solver status is compared with can be resolved', got=bad_)
            return
        rep.check(not bad_ and pc['LpStatus'].get('LpStatusOptimal') in compared, rule, f.where, "every string a solver status is compared with is one of PuLP's LpStatus strings, 'Optimal' among them (%d comparisons)" % sites,
                  got=sorted(compared), want=sorted(valid), construct='status strings %s' % (bad_ or sorted(compared)))
        consts = dict(consts, OPTIMAL_PULP_STATUS=pc['LpStatus'].get('LpStatusOptimal'), NOTSOLVED_PULP_STATUS=pc['LpStatus'].get('LpStatusNotSolved'))
    rep.check(consts.get('OPTIMAL_PULP_STATUS') == pc['LpStatus'].get('LpStatusOptimal'), rule, repo.method('Model', '__init__').where,
              "the model's Optimal constant equals PuLP's LpStatus string", got=consts.get('OPTIMAL_PULP_STATUS'), want=pc['LpStatus'].get('LpStatusOptimal'),
              construct='OPTIMAL constant')
    rep.check(consts.get('NOTSOLVED_PULP_STATUS') == pc['LpStatus'].get('LpStatusNotSolved'), rule, repo.method('Model', '__init__').where,
              "the model's Not-Solved constant equals PuLP's LpStatus string", got=consts.get('NOTSOLVED_PULP_STATUS'), want=pc['LpStatus'].get('LpStatusNotSolved'),
              construct='NOTSOLVED constant')
    it = Interp(repo)
    try:
        effs, _ = it.run(f, {p_: S(p_) for p_ in f.params[1:]}, selfterm=lp.MODEL)
    except Unknown as u:
        rep.inconclusive(rule, f.where, 'get_results is inside the interpreted fragment', got=str(u))
        return
    conds = {}
    for e, ctx in iter_effects(effs):
        if e.kind == 'if' and not getattr(e, 'synthetic', False) and e.func is f:
            conds.setdefault(e.line, e.cond)
    g = CFG(f.node)
    M = lp.MODEL
    status = A(M, 'pulp_status')
    OPT, NS = A(M, 'OPTIMAL_PULP_STATUS'), A(M, 'NOTSOLVED_PULP_STATUS')
    # the constants as model attributes, or folded to PuLP's own strings (module-level constants, literals: judged above)
    OPTS = (OPT, C(pc['LpStatus'].get('LpStatusOptimal')))
    NSS = (NS, C(pc['LpStatus'].get('LpStatusNotSolved')))
    limit = A(M, 'time_limit')
    total = CALL(A(BIN('Sub', A(M, 'time_after_solve'), A(M, 'time_start')), 'total_seconds'), [])

    def norm(c):
        if c[0] == 'not' and c[1][0] == 'cmp':
            n = {'Eq': 'NotEq', 'NotEq': 'Eq', 'Is': 'IsNot', 'IsNot': 'Is', 'Lt': 'GtE', 'GtE': 'Lt', 'Gt': 'LtE', 'LtE': 'Gt'}.get(c[1][1])
            if n:
                return CMP(n, c[1][2], c[1][3])
        return c

    def is_limit_set(c):
        c = norm(c)
        return c in (CMP('NotEq', limit, NONE), CMP('IsNot', limit, NONE), CMP('NotEq', NONE, limit), CMP('IsNot', NONE, limit))

    def is_timeout_core(c):
        if c[0] == 'bool' and c[1] == 'or' and len(c[2]) == 2:
            parts = {norm(x) for x in c[2]}
            a_ok = any(x in parts for NS_ in NSS for x in (CMP('Eq', status, NS_), CMP('Eq', NS_, status)))
            b_ok = any(x in parts for x in (CMP('Gt', total, limit), CMP('Lt', limit, total), CMP('GtE', total, limit), CMP('LtE', limit, total)))
            return a_ok and b_ok
        return False

    def opt_gate(c):
        """-> label of the edge on which the status is Optimal, or None."""
        c = norm(c)
        for OPT_ in OPTS:
            if c in (CMP('NotEq', status, OPT_), CMP('NotEq', OPT_, status)):
                return False
            if c in (CMP('Eq', status, OPT_), CMP('Eq', OPT_, status)):
                return True
        return None

    def atom_of(c):
        c = norm(c)
        if c in (CMP('NotEq', limit, NONE), CMP('IsNot', limit, NONE), CMP('NotEq', NONE, limit), CMP('IsNot', NONE, limit)):
            return ('L', True)
        if c in (CMP('Eq', limit, NONE), CMP('Is', limit, NONE), CMP('Eq', NONE, limit), CMP('Is', NONE, limit)):
            return ('L', False)
        if any(c in (CMP('Eq', status, NS_), CMP('Eq', NS_, status)) for NS_ in NSS):
            return ('N', True)
        if any(c in (CMP('NotEq', status, NS_), CMP('NotEq', NS_, status)) for NS_ in NSS):
            return ('N', False)
        if c in (CMP('Gt', total, limit), CMP('Lt', limit, total)):
            return ('T', True)
        if c in (CMP('LtE', total, limit), CMP('GtE', limit, total)):
            return ('T', False)
        return None

    def table(c):
        """Truth table of a gate condition over (L, N, T), or None if it mentions anything else."""
        import itertools
        rows = []
        for L, N, T in itertools.product([False, True], repeat=3):
            val = {'L': L, 'N': N, 'T': T}
            def ev(t):
                if t == TRUE: return True
                if t == FALSE: return False
                a = atom_of(t)
                if a is not None:
                    return val[a[0]] == a[1]
                if t[0] == 'not':
                    v = ev(t[1]); return None if v is None else (not v)
                if t[0] == 'bool':
                    vs = [ev(x) for x in t[2]]
                    if any(v is None for v in vs): return None
                    return all(vs) if t[1] == 'and' else any(vs)
                if t[0] == 'ite':
                    cv = ev(t[1])
                    if cv is None: return None
                    return ev(t[2]) if cv else ev(t[3])
                return None
            v = ev(c)
            if v is None:
                return None
            rows.append(v)
        return tuple(rows)
    import itertools
    T_L = tuple(L for L, N, T in itertools.product([False, True], repeat=3))
    T_CORE = tuple(N or T for L, N, T in itertools.product([False, True], repeat=3))
    T_COMB = tuple(L and (N or T) for L, N, T in itertools.product([False, True], repeat=3))
    tests = [n for n in g.nodes if n.kind == 'test']
    opt_edges, tl_outer, tl_inner, tl_comb = [], [], [], []
    for t in tests:
        c = conds.get(t.line)
        if c is None:
            continue
        lab = opt_gate(c)
        if lab is not None:
            opt_edges.append((t, lab))
        tb = table(c)
        if tb == T_L:
            tl_outer.append(t)
        elif tb == T_CORE:
            tl_inner.append(t)
        elif tb == T_COMB:
            tl_comb.append(t)
    # sensitive nodes: read LP variable values directly or through a local derived from such a read
    readers = lp_state_readers(repo)
    pair_readers = readers & set(repo.classes.get('Pair', {}))
    # the text being assembled (whatever is returned) collects gated and ungated pieces alike: it carries no taint itself
    returned = {x.id for r_ in ast.walk(f.node) if isinstance(r_, ast.Return) and r_.value is not None for x in ast.walk(r_.value) if isinstance(x, ast.Name)}
    accumulated = {n_.target.id for n_ in ast.walk(f.node) if isinstance(n_, ast.AugAssign) and isinstance(n_.target, ast.Name)} \
        | {n_.func.value.id for n_ in ast.walk(f.node) if isinstance(n_, ast.Call) and isinstance(n_.func, ast.Attribute) and n_.func.attr in ('append', 'extend')
           and isinstance(n_.func.value, ast.Name)}
    out_names = (returned & accumulated) | {'results'}
    tainted = set()
    sens = []
    changed = True
    while changed:
        changed = False
        for n in g.nodes:
            if n.ast is None or n in sens:
                continue
            hit = False
            parts = [n.ast] if n.kind != 'loop' else [n.ast.iter if isinstance(n.ast, ast.For) else n.ast.test]
            for p in parts:
                for x in ast.walk(p):
                    if isinstance(x, ast.Call) and isinstance(x.func, ast.Attribute) and x.func.attr in readers \
                            and ((isinstance(x.func.value, ast.Name) and x.func.value.id == 'self') or x.func.attr in pair_readers):
                        hit = True
                    if isinstance(x, ast.Attribute) and x.attr in ('varValue', 'lp_var'):
                        hit = True
                    if isinstance(x, ast.Name) and isinstance(x.ctx, ast.Load) and x.id in tainted:
                        hit = True
            if hit:
                sens.append(n)
                changed = True
                for name, kind in g.defs_of(n).items():
                    if name not in out_names and name not in tainted:
                        tainted.add(name)
    # statements that print a statistic label from the matching also count (calls with a tainted argument are already in)
    rep.count('sensitive_statements', len(sens))
    # instance floor: the statistics, the matching line and the listings read the LP state in at least 5 places (one
    # statement may hold several of them, e.g. a literal list of lines)
    reads = 0
    for n in sens:
        parts = [n.ast] if n.kind != 'loop' else [n.ast.iter if isinstance(n.ast, ast.For) else n.ast.test]
        for p_ in parts:
            for x in ast.walk(p_):
                if isinstance(x, ast.Call) and isinstance(x.func, ast.Attribute) and x.func.attr in readers \
                        and ((isinstance(x.func.value, ast.Name) and x.func.value.id == 'self') or x.func.attr in pair_readers):
                    reads += 1
                elif isinstance(x, ast.Attribute) and x.attr == 'varValue':
                    reads += 1
                elif isinstance(x, ast.Name) and isinstance(x.ctx, ast.Load) and x.id in tainted:
                    reads += 1
    rep.count('sensitive_reads', reads)
    if reads < 5:
        rep.inconclusive(rule, f.where, 'the statements that emit matching output are identified', got='%d statements with %d reads of the LP state found' % (len(sens), reads))
        return
    rep.check(bool(opt_edges), rule, f.where, "get_results tests pulp_status against the Optimal constant", got=[show(conds.get(t.line)) for t in tests][:6],
              want='if not pulp_status == OPTIMAL: return', construct='optimal gate absent')
    have_tl = bool(tl_comb) or (bool(tl_outer) and bool(tl_inner))
    rep.check(have_tl, rule, f.where, 'get_results tests (time limit set) and (status Not Solved or total_s > limit)',
              got=[show(conds.get(t.line))[:120] for t in tests][:6], want='if limit is not None: if status == NOTSOLVED or total_s > limit: return',
              construct='timeout gate absent or weakened')

    def reachable_without(target, removed_edges):
        seen = {g.entry.id}
        st = [g.entry]
        while st:
            n = st.pop()
            if n.id == target.id:
                return True
            for m, lab in n.succ:
                if (n.id, lab) in removed_edges:
                    continue
                if m.id not in seen:
                    seen.add(m.id)
                    st.append(m)
        return False

    bad_opt, bad_tl = [], []
    for n in sens:
        if opt_edges:
            # n must be reachable only through the Optimal edge of some gate: removing that edge makes it unreachable
            if not any(not reachable_without(n, {(t.id, lab)}) for t, lab in opt_edges):
                bad_opt.append(n)
        if have_tl:
            removed = set()
            for t in tl_comb:
                removed.add((t.id, False))
            ok = False
            if tl_comb and not reachable_without(n, {(t.id, False) for t in tl_comb}):
                ok = True
            if tl_outer and tl_inner and not reachable_without(n, {(t.id, False) for t in tl_outer} | {(t.id, False) for t in tl_inner}):
                ok = True
            if not ok:
                bad_tl.append(n)
    rep.check(not bad_opt, rule, f.where, 'every statement emitting matching output is reached only through the Optimal edge of the status gate (%d statements)' % len(sens),
              got=['line %d: %s' % (n.line, ast.unparse(n.ast)[:60]) for n in bad_opt][:4], want='dominated by the Optimal edge',
              construct='output not gated by Optimal: ' + '; '.join(sorted({ast.unparse(n.ast)[:50] for n in bad_opt}))[:160],
              loc='%s:%d' % (f.relpath, bad_opt[0].line) if bad_opt else None)
    rep.check(not bad_tl, rule, f.where, 'every statement emitting matching output is reached only past the Timeout gate (%d statements)' % len(sens),
              got=['line %d: %s' % (n.line, ast.unparse(n.ast)[:60]) for n in bad_tl][:4], want='dominated by the timeout gate',
              construct='output not gated by Timeout: ' + '; '.join(sorted({ast.unparse(n.ast)[:50] for n in bad_tl}))[:160],
              loc='%s:%d' % (f.relpath, bad_tl[0].line) if bad_tl else None)
    # the exit branches of the gates return (nothing falls through into the statistics)
    for t, lab in opt_edges:
        other = [m for m, l in t.succ if l != lab]
        leaves = all(not any(g.paths_avoiding(m, n, set()) for n in sens) for m in other)
        rep.check(leaves, rule, f.where, 'the non-Optimal branch of the status gate never reaches matching output', got='falls through' if not leaves else 'returns',
                  construct='non-optimal branch falls through', loc='%s:%d' % (f.relpath, t.line))
    # the public getters of Solver go through these two functions only
    for name in ('get_results', 'get_results_short', 'get_results_long'):
        sf = repo.method('Solver', name)
        bad = [n for n in ast.walk(sf.node) if isinstance(n, ast.Attribute) and n.attr in ('varValue', 'lp_var', repo.actual('Model', '_get_pair_assignments'), repo.actual('Model', '_get_matching_string'))]
        rep.check(not bad, rule, sf.where, 'Solver.%s obtains matching output only through the gated Model.get_results / brute-force results' % name,
                  got=[ast.unparse(b) for b in bad], construct='ungated access in Solver.%s' % name)


# ---- R5 -----------------------------------------------------------------------------------------------------
def check_bf(rep, repo):
    rule = 'C14.R5'
    cls = repo.classes.get('Brute_force_solver', {})
    f = cls.get('get_results')
    if f is None:
        raise AnalysisError('anchor vanished: Brute_force_solver.get_results')
    bad = []
    todo, seen = [f], set()
    while todo:
        fn = todo.pop()
        if fn in seen:
            continue
        seen.add(fn)
        for n in ast.walk(fn.node):
            if isinstance(n, ast.Attribute) and n.attr in ('lp_var', 'varValue', 'pulp_status', 'alpha_var', 'beta_var'):
                bad.append('%s:%d %s' % (fn.relpath, n.lineno, ast.unparse(n)))
            if isinstance(n, ast.Call) and isinstance(n.func, ast.Attribute):
                for cname in ('Brute_force_solver', 'Model'):
                    m = repo.classes.get(cname, {}).get(n.func.attr)
                    if m is not None:
                        todo.append(m)
    rep.check(not bad, rule, f.where, 'brute-force results are formatted without reading LP state (%d functions in the slice)' % len(seen), got=bad[:4],
              construct='bf reads LP state')
