"""C07 -- brute-force mode reports the exact optimum of every statistic it prints (DESIGN.md section 5, C07).

The exhaustive search cannot be run statically; what IS in the shape of the code is the fold it performs.  Decided:
R1 the search space is {0..P}^n (0 = unassigned) and every matching goes through get_matching_pairs (the pair of the
   student's row with that project, None when the student does not find it acceptable) and is_valid;
R2 is_valid = definition of a valid matching incl. the closure rule, as a decision table over the order types of
   (count, lower quota, upper quota) x pc, and no attribute of an absent pair is touched;
R3 the per-matching update of the nine printed accumulators, evaluated abstractly by cases (valid?, size vs best
   size, statistic vs best-so-far) equals the specified fold (maximum size; optimum over maximum-size matchings, reset
   when the size grows; optimum over all valid matchings), whatever the order of the statements, helper extraction,
   if/elif, early continue;
R4 the two profile comparators are the strict lexicographic orders from the last / first rank;
R5 every stored / compared / printed profile has one entry per rank up to the maximum rank (the fold's initial greedy
   profile has the length of the profiles it is compared with);
R6 'Infeasible' is printed exactly when the size sentinel survives, and the sentinel is below every real size;
R7 the initial values of the accumulators taken over ALL valid matchings are neutral (dominate every attainable value)
   for every instance shape - not the value of some particular, possibly invalid, matching."""
import ast, itertools

from ..terms import *
from ..absint import Interp, iter_effects, Eff, dump
from ..termeval import TermEval, NOATOM, Abs, Leave, Raises, order_cmp, FLIP
from ..loader import AnalysisError
from .. import lp, spec, doc
from ..poly import pconst, patom, padd, psub, pmul, pshow

RULES = {
    'C07.R1': 'search space = product(range(P+1), repeat=n); each tuple becomes the list of chosen pairs (None when unacceptable) and only is_valid matchings are folded',
    'C07.R2': 'is_valid rejects exactly: an absent pair; a project with (not (pc and count==0)) and count outside [lq,uq]; a lecturer with count outside [lq,uq]  (decision table over order types)',
    'C07.R3': 'symbolic step of the fold by cases equals the specification for each printed accumulator (tier, statistic, order)',
    'C07.R4': 'moregen / moregre are the strict lexicographic comparisons from the worst / best rank (first difference decides, equal -> False)',
    'C07.R8': 'the brute-force path never fails on an undefined name: no local is read before every binding of it, no attribute of self is read that nothing defines',
    'C07.R9': 'under -bf Solver.solve constructs the brute-force solver on the model and runs it, and Solver.get_results returns its text',
    'C07.R5': 'profiles have one entry per rank: initial all-matchings greedy profile is [0] * (maximum rank), the length _get_profile produces',
    'C07.R6': "'Infeasible' is printed iff the size accumulator still holds its negative sentinel; otherwise all nine lines are printed",
    'C07.R7': 'initial values of the all-matchings minima dominate every attainable value (max / sum of |load - target|) on every instance',
}

SELF = lp.SELF
BF = 'Brute_force_solver'


def bf_table(repo):
    """spec.BRUTE_FORCE with the statistic helpers under the names they have in this tree"""
    return {label: (tier_, repo.actual('Model', helper) if helper else helper, order) for label, (tier_, helper, order) in spec.BRUTE_FORCE.items()}


def has_loop(f):
    return any(isinstance(n, (ast.For, ast.While, ast.ListComp, ast.GeneratorExp)) for n in ast.walk(f.node))


def make_opaque(repo, it):
    def opaque(f):
        if f.cls == 'Model':
            return True
        if f.cls == BF and Interp.is_generator(f):
            return False                  # the enumeration itself, handed out lazily: its loop is the enumeration loop
        if f.cls == BF and has_loop(f):
            # pure search / comparison helpers stay opaque; a helper that itself folds into self.optimal_* is inlined
            return not any(a.startswith('optimal_') for a in it.stored_attrs(f.node.body))
        return False
    return opaque


def is_model_count(t, attr):
    return lp.model_attr(t) == attr


# ---------------------------------------------------------------------------------------------------------------------
def labels_of(rv_branch, fused=None):
    """document of the result text -> {label: hole term}; labels that do not start a line are collected in `fused`"""
    items = doc.doc_of(rv_branch)
    out = {}
    for i, it_ in enumerate(items[:-1]):
        if isinstance(it_, doc.Lit):
            last = it_.text.split('\n')[-1]
            if last.endswith(': ') and isinstance(items[i + 1], doc.Hole):
                out[last[:-2].strip()] = items[i + 1].term
                if fused is not None and i > 0 and '\n' not in it_.text and last.startswith('optimal'):
                    fused.append(last[:-2].strip())          # the value printed before runs straight into this label
    return out


def strip_str(t):
    while t[0] == 'call' and t[1] == S('str') and len(t[2]) == 1:
        t = t[2][0]
    return t


# ---------------------------------------------------------------------------------------------------------------------
def run(rep, repo, tier):
    for k, v in RULES.items():
        rep.rule(k, v)
    rep.assumptions += ['well-formed instance: 0 <= lq <= uq, lecturer target within [0, upper quota], project ids distinct within a row (A1)',
                        'the statistic helpers of Model compute what their labels say (C11 rules R1 decide this)']
    if BF not in repo.classes:
        raise AnalysisError('class %s not found' % BF)
    f_run, f_res = repo.method(BF, 'run'), repo.method(BF, 'get_results')
    table = check_results(rep, repo, f_res)
    if table is None:
        return
    comps = check_comparators(rep, repo)
    check_fold(rep, repo, f_run, table, comps)
    check_validity(rep, repo)
    check_dispatch(rep, repo, f_run, f_res)
    from ..defined import check_defined
    check_defined(rep, repo, 'C07.R8', [repo.classes[BF].get('__init__'), f_run, f_res], 'brute-force path')


# ---- R9 -------------------------------------------------------------------------------------------------------------
def check_dispatch(rep, repo, f_run, f_res):
    rule = 'C07.R9'
    f = repo.method('Solver', 'solve')
    g = repo.method('Solver', 'get_results')
    def interp():
        it = Interp(repo)
        lp.config_heap(it, S('PC'), S('STAB'), [], bf=True)
        it.opaque = lambda h: h.cls == BF and h.name != '__init__'
        return it
    try:
        effs, _ = interp().run(f, {p_: S(p_) for p_ in f.params if p_ != 'self'})
        it2 = interp()
        effs2, _ = it2.run(f, {p_: S(p_) for p_ in f.params if p_ != 'self'})
        geffs, rv = it2.run(g, {})
    except Unknown as u:
        rep.inconclusive(rule, f.where, 'Solver.solve / get_results under -bf are inside the interpreted fragment', got=str(u))
        return
    calls = [(e, ctx) for e, ctx in iter_effects(effs) if e.kind in ('call', 'callo') and getattr(e, 'target', None) is f_run]
    uncond = [e for e, ctx in calls if not any(c_.kind in ('if', 'for', 'while') for c_, _ in ctx)]
    rep.check(len(uncond) == 1 and len(calls) == 1, rule, f.where, 'with the brute-force option set, solve() runs the enumeration exactly once',
              got='%d calls of %s.run (%d unconditional)' % (len(calls), BF, len(uncond)), want='self.solver.run()', construct='brute-force run not started')
    for e, _ in calls:
        n_args = len(getattr(e, 'args', ()) or ())
        n_par = len([p_ for p_ in f_run.params if p_ != 'self'])
        n_req = n_par - len(f_run.node.args.defaults)
        rep.check(n_req <= n_args <= n_par, rule, f.where, 'the call matches the signature of %s.run' % BF, got='%d arguments' % n_args,
                  want='%d..%d' % (n_req, n_par), construct='brute-force run called with the wrong arguments', loc=getattr(e, 'loc', None))
    ok = contains(rv, lambda y: y[0] in ('call', 'callm', 'callo') and any(getattr(z, 'name', None) == 'get_results' and getattr(z, 'cls', None) == BF for z in y[1:] if not isinstance(z, tuple))) \
        or any(e.kind in ('call', 'callo') and getattr(e, 'target', None) is f_res for e, _ in iter_effects(geffs))
    rep.check(ok, rule, g.where, "with the brute-force option set, get_results() returns the brute-force solver's text", got=show(rv)[:120],
              want='self.solver.get_results()', construct='brute-force results not returned')


# ---- R6 + label table -----------------------------------------------------------------------------------------------
def check_results(rep, repo, f):
    it = Interp(repo)
    it.opaque = lambda g: g.cls == 'Model'
    try:
        effs, rv = it.run(f, {})
    except Unknown as u:
        rep.inconclusive('C07.R6', f.where, 'get_results is inside the interpreted fragment', got=str(u))
        return None
    # rv = ITE(cond, infeasible text, ITE(not cond, full text, None)) or the like: collect (path condition, text)
    alts = []
    def split(t, conds):
        if t[0] == 'ite':
            split(t[2], conds + [t[1]])
            split(t[3], conds + [NOT(t[1])])
        elif t != NONE:
            alts.append((conds, t))
    split(rv, [])
    inf = [(c, t) for c, t in alts if any(isinstance(x, doc.Lit) and 'Infeasible' in x.text for x in doc.doc_of(t))]
    full = [(c, t) for c, t in alts if (c, t) not in inf]
    if len(inf) != 1 or len(full) != 1:
        rep.inconclusive('C07.R6', f.where, "one 'Infeasible' text and one statistics text", got='%d / %d alternatives' % (len(inf), len(full)))
        return None
    fused = []
    labels = labels_of(full[0][1], fused)
    rep.check(not fused, 'C07.R6', f.where, 'every statistic is printed on a line of its own', got='no line break between the previous value and %s' % fused[:3] if fused else 'one line each',
              want="... + str(value) + '\\n'", construct='statistic lines run together')
    table = {}
    for label, (tier_, helper, order) in bf_table(repo).items():
        if label not in labels:
            rep.fail('C07.R6', f.where, 'every documented statistic line is printed', got='no line %r' % label, want=label + ': <value>', construct='missing line ' + label)
            continue
        h = strip_str(labels[label])
        if h[0] == 'call' and lp.model_attr(h[1]) == repo.actual('Model', '_get_profile_string') and len(h[2]) == 1:
            if order not in ('gen', 'gre'):
                rep.fail('C07.R6', f.where, 'only profiles are formatted as profiles', got=show(h), construct='format of ' + label)
            h = h[2][0]
        elif order in ('gen', 'gre'):
            rep.fail('C07.R6', f.where, 'profiles are printed through _get_profile_string', got=show(h)[:80], construct='format of ' + label)
        while (h[0] == 'call' and h[1] in (S('list'), S('tuple'), A(S('copy'), 'copy'), S('copy')) and len(h[2]) == 1 and not (len(h) > 3 and h[3])) \
                or (h[0] == 'slice' and h[2] == NONE and h[3] == NONE):
            h = h[2][0] if h[0] == 'call' else h[1]          # a copy of the accumulator (list(x), x[:]) prints the same
        if not (h[0] == 'attr' and h[1] == SELF):
            rep.fail('C07.R6', f.where, 'the line prints an accumulator of the solver unchanged', got=show(h)[:100], want='str(self.<accumulator>)', construct='value of ' + label)
            continue
        table[h[2]] = (label, tier_, helper, order)
    if len(set(table)) != len(bf_table(repo)):
        rep.fail('C07.R6', f.where, 'nine distinct accumulators are printed under the nine labels', got=sorted(table), construct='accumulator table')
        return None
    rep.ok('C07.R6', f.where, 'label -> accumulator table (9 lines)', got={v[0]: k for k, v in table.items()})
    rep.count('accumulators', len(table))
    # the Infeasible condition
    size_attr = next(k for k, v in table.items() if v[1] == 'size')
    conds = inf[0][0]
    cond = AND(*conds) if len(conds) > 1 else conds[0]
    consts = [x[1] for x in walk(cond) if x[0] == 'const' and isinstance(x[1], int) and not isinstance(x[1], bool)]
    consts += [-x[2][1] for x in walk(cond) if x[0] == 'un' and x[1] == 'USub' and x[2][0] == 'const']
    def holds(value):
        te = TermEval(atom=lambda t: value if t == A(SELF, size_attr) else NOATOM)
        return te.truth(te.ev(cond))
    try:
        # initial sentinel of run()
        sentinel = initial_values(repo).get(size_attr)
        if not (sentinel is not None and is_num(sentinel) and sentinel[1] < 0):
            rep.fail('C07.R6', repo.method(BF, 'run').where, 'the size accumulator starts at a negative sentinel (every real size is >= 0)', got=None if sentinel is None else show(sentinel),
                     want='-1', construct='size sentinel')
            return table
        s = sentinel[1]
        probe = sorted(set(range(0, max([0] + consts) + 3)))
        ok = holds(s) and not any(holds(v) for v in probe)
        rep.check(ok, 'C07.R6', f.where, "'Infeasible' is printed iff %s still holds the sentinel %d" % (size_attr, s), got=show(cond), want='%s == %d' % (size_attr, s),
                  construct='Infeasible condition')
    except Unknown as u:
        rep.inconclusive('C07.R6', f.where, 'the Infeasible condition is a comparison of the size accumulator with constants', got=str(u))
    # the full text is printed on the complementary condition only (no third outcome)
    return table


_init_cache = {}


def run_tree(repo):
    key = repo.root
    if key not in _init_cache:
        it = Interp(repo)
        it.opaque = make_opaque(repo, it)
        f = repo.method(BF, 'run')
        effs, rv = it.run(f, {})
        _init_cache[key] = promote_locals([e for e in effs if not (e.kind == 'call' and Interp.is_generator(e.target))])
        _gen_cache[key] = [e for e in effs if e.kind == 'call' and Interp.is_generator(e.target)]
    return _init_cache[key]


_gen_cache = {}


def promote_locals(effs):
    """run() may fold into locals and copy them to self.optimal_* once the enumeration is over.  The effect tree is rewritten
    to the equivalent form in which the fold works on the attributes themselves: initial value stored before the loop,
    every assignment of the local inside the loop a store, every read of the running value a read of the attribute."""
    from ..absint import map_effects
    loops = [e for e in effs if e.kind == 'for']
    if len(loops) != 1:
        return effs
    loop = loops[0]
    k = effs.index(loop)
    promo = {}
    for e in effs[k + 1:]:
        if e.kind == 'store' and e.target[0] == 'attr' and e.target[1] == SELF and e.value[0] == 'accum' and len(e.value) > 4 and e.value[4] == loop.lid \
                and isinstance(e.value[3], str) and e.value[3] not in promo and all(en[0] == 'assign' for en in e.value[2]):
            promo[e.value[3]] = (e.target[2], e.value[1], e)
    if not promo:
        return effs
    dropped = {id(v[2]) for v in promo.values()}
    def rw(t):
        if t[0] in ('carried', 'prefix') and t[1] in promo and t[2] == loop.lid:
            return A(SELF, promo[t[1]][0])
        return None
    def conv(es):
        out = []
        for e in es:
            if e.kind == 'acc' and e.var in promo and e.op == 'assign':
                out.append(Eff('store', e.func, None, target=A(SELF, promo[e.var][0]), value=e.value))
                out[-1].line = e.line
                continue
            for fld in ('then', 'orelse', 'body'):
                if hasattr(e, fld) and isinstance(getattr(e, fld), list):
                    setattr(e, fld, conv(getattr(e, fld)))
            out.append(e)
        return out
    new_loop = conv(map_effects([loop], rw))[0]
    inits = []
    for var, (attr, pre, e) in promo.items():
        st = Eff('store', e.func, None, target=A(SELF, attr), value=pre)
        st.line = loop.line
        inits.append(st)
    return effs[:k] + inits + [new_loop] + [e for e in effs[k + 1:] if id(e) not in dropped]


def initial_values(repo):
    """stores to self.<attr> before the enumeration loop -> {attr: term} (last one wins)"""
    out = {}
    for e in run_tree(repo):
        if e.kind == 'for':
            break
        if e.kind == 'store' and e.target[0] == 'attr' and e.target[1] == SELF:
            out[e.target[2]] = e.value
        elif e.kind in ('if', 'while'):
            raise Unknown('conditional initialisation of the accumulators')
    return out


# ---- R4 comparators ------------------------------------------------------------------------------------------------
def classify_comparator(repo, f):
    """-> 'gen' | 'gre' | ('BAD', why); raises Unknown outside the fragment"""
    if len(f.params) != 3:
        raise Unknown('not a binary comparator')
    p1, p2 = S(f.params[1]), S(f.params[2])
    it = Interp(repo)
    effs, rv = it.run(f, {})
    # native list comparison: lexicographic from the first entry
    if not any(e.kind in ('for', 'while') for e in effs):
        if rv == CMP('Gt', p1, p2) or rv == CMP('Lt', p2, p1):
            return 'gre'
        rev = lambda x: CALL(S('list'), [CALL(S('reversed'), [x])])
        if rv == CMP('Lt', rev(p1), rev(p2)) or rv == CMP('Gt', rev(p2), rev(p1)):
            return 'gen'            # lexicographic from the WORST rank: fewer students there first
        raise Unknown('comparator without a loop: %s' % show(rv)[:80])
    loops = [e for e in effs if e.kind == 'for']
    if len(loops) != 1 or any(e.kind == 'while' for e in effs):
        raise Unknown('comparator with %d loops' % len(loops))
    lp_ = loops[0]
    b = lp_.binder
    dom = b[3]
    direction, e1, e2 = None, None, None
    ln = CALL(S('len'), [p1])
    ln2 = CALL(S('len'), [p2])
    def rng_dir(d):
        if d[0] == 'call' and d[1] == S('range'):
            a = d[2]
            if len(a) == 1 and a[0] in (ln, ln2):
                return 'asc'
            if len(a) == 2 and a[0] == C(0) and a[1] in (ln, ln2):
                return 'asc'
            if len(a) == 3 and a[0] in (BIN('Sub', ln, C(1)), BIN('Sub', ln2, C(1))) and a[1] == C(-1) and a[2] == C(-1):
                return 'desc'
        if d[0] == 'call' and d[1] == S('reversed') and len(d[2]) == 1:
            inner = d[2][0]
            if inner[0] == 'call' and inner[1] == S('list') and len(inner[2]) == 1:
                inner = inner[2][0]
            r = rng_dir(inner)
            return {'asc': 'desc', 'desc': 'asc'}.get(r)
        return None
    direction = rng_dir(dom)
    if direction is not None:
        e1, e2 = [I(p1, b)], [I(p2, b)]
    elif dom == p1 or dom == p2:                      # enumerate(profile1): binder is the element, indexof the position
        direction = 'asc'
        ix = ('indexof', b)
        e1 = [b, I(p1, ix)] if dom == p1 else [I(p1, ix)]
        e2 = [b, I(p2, ix)] if dom == p2 else [I(p2, ix)]
    elif dom[0] == 'call' and dom[1] == S('zip') and tuple(dom[2]) == (p1, p2):
        direction = 'asc'
        e1, e2 = [I(b, C(0))], [I(b, C(1))]
    elif dom[0] == 'call' and dom[1] == S('range') and all(contains(a, lambda x: x in (ln, ln2)) or is_num(a) for a in dom[2]):
        return ('BAD', 'the loop over %s does not visit every rank once' % show(dom))
    else:
        raise Unknown('comparator loop domain %s' % show(dom)[:80])
    post = effs[effs.index(lp_) + 1:]
    outcomes = {}
    for rel in ('lt', 'eq', 'gt'):
        def atom(t):
            if t in e1:
                return Abs('el', 1)
            if t in e2:
                return Abs('el', 2)
            return NOATOM
        def cmp(op, a, c):
            if isinstance(a, Abs) and isinstance(c, Abs) and a.tag == c.tag == 'el':
                if a.data == c.data:
                    return order_cmp(op, 'eq')
                r = rel if a.data == 1 else {'lt': 'gt', 'gt': 'lt', 'eq': 'eq'}[rel]
                return order_cmp(op, r)
            return NOATOM
        te = TermEval(atom, cmp)
        try:
            te.run(lp_.body)
            outcomes[rel] = 'next'
        except Leave as lv:
            outcomes[rel] = lv.value if lv.kind == 'return' else ('next' if lv.kind == 'continue' else 'break')
    # after the loop: all entries equal
    te = TermEval()
    try:
        te.run(post)
        final = None
    except Leave as lv:
        final = lv.value if lv.kind == 'return' else lv.kind
    if outcomes['eq'] != 'next':
        return ('BAD', 'equal entries decide (%r) instead of moving to the next rank' % (outcomes['eq'],))
    if final is not False:
        return ('BAD', 'equal profiles compare as %r, a strict order needs False' % (final,))
    if outcomes['lt'] is True and outcomes['gt'] is False:
        kind = 'fewer-first'
    elif outcomes['gt'] is True and outcomes['lt'] is False:
        kind = 'more-first'
    else:
        return ('BAD', 'first difference does not decide: less -> %r, greater -> %r' % (outcomes['lt'], outcomes['gt']))
    if kind == 'fewer-first' and direction == 'desc':
        return 'gen'
    if kind == 'more-first' and direction == 'asc':
        return 'gre'
    return ('BAD', 'compares %s entries at the first difference scanning %s' % ('fewer' if kind == 'fewer-first' else 'more', 'from the best rank' if direction == 'asc' else 'from the worst rank'))


def check_comparators(rep, repo):
    """classify every binary method of the solver that has the shape of a comparator -> {Func name: 'gen'|'gre'}"""
    out = {}
    want = {'moregen': 'gen', 'moregre': 'gre'}
    for name, f in sorted(repo.classes[BF].items()):
        if len(f.params) != 3 or name.startswith('__') or not has_loop(f) and name not in want:
            continue
        if name not in want and not any(isinstance(n, ast.Compare) for n in ast.walk(f.node)):
            continue
        try:
            k = classify_comparator(repo, f)
        except Unknown as u:
            if name in want:
                rep.inconclusive('C07.R4', f.where, 'comparator is inside the evaluated fragment', got=str(u))
            continue
        except Raises as r:
            rep.fail('C07.R4', f.where, 'the comparator never fails', got=str(r), construct='comparator raises')
            continue
        if isinstance(k, tuple):
            if name in want:
                rep.fail('C07.R4', f.where, '%s is the strict lexicographic order %s' % (name, 'from the worst rank, fewer is better' if want[name] == 'gen' else 'from the best rank, more is better'),
                         got=k[1], construct='comparator %s table' % name)
            continue
        out[name] = k
        if name in want:
            rep.check(k == want[name], 'C07.R4', f.where, '%s is the %s order' % (name, 'generous' if want[name] == 'gen' else 'greedy'), got=k, want=want[name], construct='comparator %s kind' % name)
        else:
            rep.ok('C07.R4', f.where, 'additional comparator classified', got=k)
    rep.count('comparators', len(out))
    return out


# ---- R1, R3, R5, R7 --------------------------------------------------------------------------------------------------
class Need(Exception):
    def __init__(self, key):
        self.key = key


def check_fold(rep, repo, f, table, comps):
    try:
        effs = run_tree(repo)
        init = initial_values(repo)
    except Unknown as u:
        rep.inconclusive('C07.R3', f.where, 'run() is inside the interpreted fragment', got=str(u))
        return
    loops = [e for e in effs if e.kind == 'for']
    nested = [e for e, c in iter_effects(effs) if e.kind in ('for', 'while') and c]
    if len(loops) != 1 or nested:
        rep.inconclusive('C07.R1', f.where, 'run() has exactly one enumeration loop', got='%d top-level, %d nested' % (len(loops), len(nested)))
        return
    loop = loops[0]
    b = loop.binder
    dom = b[3]
    # R1: the domain
    ok_dom = False
    if dom[0] == 'call' and show(dom[1]).split('.')[-1] == 'product' and len(dom[2]) == 1 and dict(dom[3]).keys() == {'repeat'}:
        rng = dom[2][0]
        if rng[0] == 'call' and rng[1] in (S('list'), S('tuple')) and len(rng[2]) == 1:
            rng = rng[2][0]
        if rng[0] == 'call' and rng[1] == S('range'):
            a = rng[2]
            hi = a[0] if len(a) == 1 else (a[1] if len(a) == 2 and a[0] == C(0) else None)
            if hi is not None and hi in (BIN('Add', A(lp.MODEL, 'num_projects'), C(1)), BIN('Add', C(1), A(lp.MODEL, 'num_projects'))):
                ok_dom = dict(dom[3])['repeat'] == A(lp.MODEL, 'num_students')
    rep.check(ok_dom, 'C07.R1', f.where, 'every assignment of {unassigned, project 1..P} to each of the n students is enumerated', got=show(dom)[:120],
              want='product(range(num_projects + 1), repeat=num_students)', construct='enumeration domain', loc=loop.loc)
    after = effs[effs.index(loop) + 1:]
    if any(e.kind in ('store', 'augstore') and e.target[0] == 'attr' and e.target[2] in table for e in after):
        rep.fail('C07.R3', f.where, 'the accumulators are final when the enumeration ends', got='store after the loop', construct='post-loop store')
    # matching pairs term and validity term
    gmp = repo.classes[BF].get('get_matching_pairs')
    isv = repo.classes[BF].get('is_valid')
    # (an enumeration handed out by a generator method is fused into this loop; its calls were made inside the generator)
    scope = list(loop.body) + _gen_cache.get(repo.root, [])
    mp_calls = [e for e, c in iter_effects(scope) if e.kind == 'callo' and e.target is gmp]
    v_calls = [e for e, c in iter_effects(scope) if e.kind == 'callo' and e.target is isv]
    if not mp_calls or not v_calls:
        rep.inconclusive('C07.R1', f.where, 'the loop calls get_matching_pairs and is_valid', got='%d / %d calls' % (len(mp_calls), len(v_calls)))
        return
    MP = mp_calls[0].ret
    VALID = v_calls[0].ret
    rep.check(all(e.args and e.args[0] == b and not any(contains(a_, lambda y: y == b) for a_ in e.args[1:]) for e in mp_calls) and all(e.args == (MP,) for e in v_calls), 'C07.R1', f.where,
              'the enumerated tuple is turned into pairs once and that list is what is validated', got='%s ; %s' % (show(MP)[:60], show(VALID)[:70]),
              construct='arguments of get_matching_pairs / is_valid')
    check_matching_pairs(rep, repo, gmp)
    # ---- R3: symbolic step ------------------------------------------------------------------------------------
    size_attr = next(k for k, v in table.items() if v[1] == 'size')
    SIZE_NEW = [CALL(S('len'), [MP]), CALL(A(lp.MODEL, repo.actual('Model', '_get_matching_size')), [MP])]
    helpers = {v[2] for v in table.values() if v[2]}
    problems = []

    def stat_of(t):
        if t[0] == 'call' and lp.model_attr(t[1]) in helpers | {repo.actual('Model', '_get_matching_size')} and t[2] == (MP,):
            return lp.model_attr(t[1])
        return None

    class Step:
        def __init__(self, val):
            self.val = val             # valuation: 'valid' -> bool, 'size' -> gt/eq/lt, ('rel', attr) -> better/equal/worse
            self.state = {a: Abs('old', a) for a in table}
            step_ = self
            class TE(TermEval):
                def truth(self, v):
                    # `best or x`: a numeric best-so-far is falsy exactly when it is 0 - a value these statistics do take
                    if isinstance(v, Abs) and v.tag == 'old' and table[v.data][3] == 'lt' and table[v.data][1] != 'size':
                        return not step_.need(('falsy', v.data))
                    return TermEval.truth(self, v)
            self.te = TE(self.atom, self.cmp, self.call)

        def need(self, key):
            if key not in self.val:
                raise Need(key)
            return self.val[key]

        def atom(self, t):
            if t == VALID:
                return self.need('valid')
            if t in SIZE_NEW:
                return Abs('new', size_attr)
            if t[0] == 'attr' and t[1] == SELF and t[2] in self.state:
                return self.state[t[2]]
            h = stat_of(t)
            if h is not None:
                return Abs('stat', h)
            return NOATOM

        def rel_of(self, a, c):
            """relation of abstract value a to c in c's accumulator order: 'better'|'equal'|'worse'"""
            if a == c:
                return 'equal'
            if a.tag in ('stat', 'new') and c.tag == 'old':
                attr = c.data
                label, tier_, helper, order = table[attr]
                if tier_ == 'size':
                    if a.tag != 'new':
                        problems.append('the size accumulator %s is compared with %r' % (attr, a))
                        raise Unknown('kind')
                    return {'gt': 'better', 'eq': 'equal', 'lt': 'worse'}[self.need('size')]
                if a.tag != 'stat' or a.data != helper:
                    problems.append('%s is compared with %s, its statistic is %s' % (attr, a.data, helper))
                    raise Unknown('kind')
                return self.need(('rel', attr))
            return None

        def cmp(self, op, a, c):
            if not (isinstance(a, Abs) and isinstance(c, Abs)):
                return NOATOM
            if a.tag == 'rev' and c.tag == 'rev':
                # reversed profiles compared natively: lexicographic from the WORST rank, the generous order (smaller is better)
                for x, y, o in ((a.data, c.data, op), (c.data, a.data, FLIP.get(op))):
                    if o is None or not (isinstance(x, Abs) and isinstance(y, Abs)):
                        continue
                    r = self.rel_of(x, y)
                    if r is None:
                        continue
                    if r == 'equal':
                        return order_cmp(o, 'eq')
                    order = table[y.data][3] if y.tag == 'old' else None
                    if order == 'gen':
                        return order_cmp(o, 'lt' if r == 'better' else 'gt')
                    problems.append('accumulator %s compared from the worst rank: that is the generous order' % y.data)
                    raise Unknown('kind')
                return NOATOM
            for x, y, o in ((a, c, op), (c, a, FLIP.get(op))):
                if o is None:
                    continue
                r = self.rel_of(x, y)
                if r is None:
                    continue
                if r == 'equal':
                    return order_cmp(o, 'eq')
                order = table[y.data][3] if y.tag == 'old' else None
                if order in ('gen', 'gre'):
                    if o in ('Eq', 'NotEq'):
                        return order_cmp(o, 'gt')
                    if order == 'gre':
                        # Python compares lists lexicographically from the first entry (the best rank): the greedy order itself
                        return order_cmp(o, 'gt' if r == 'better' else 'lt')
                    problems.append('profile accumulator %s compared with %s instead of its comparator' % (y.data, OPS[o]))
                    raise Unknown('kind')
                # 'lt' order: better = smaller ; size ('gt' order): better = larger
                smaller_better = order == 'lt'
                rel = ('lt' if r == 'better' else 'gt') if smaller_better else ('gt' if r == 'better' else 'lt')
                return order_cmp(o, rel)
            return NOATOM

        def call(self, t, args):
            if t[1] == S('reversed') and len(args) == 1 and isinstance(args[0], Abs):
                return Abs('rev', args[0])
            if t[1] in (S('list'), S('tuple')) and len(args) == 1 and isinstance(args[0], Abs) and args[0].tag == 'rev':
                return args[0]
            # comparator call: self.moregen(x, y)
            if t[1][0] == 'attr' and t[1][1] == SELF and t[1][2] in comps and len(args) == 2:
                kind = comps[t[1][2]]
                a, c = args
                if not (isinstance(a, Abs) and isinstance(c, Abs)):
                    raise Unknown('comparator on %r, %r' % (a, c))
                if a == c:
                    return False
                r = self.rel_of(a, c)
                if r is None:
                    raise Unknown('comparator %s(%r, %r)' % (t[1][2], a, c))
                if c.tag == 'old' and table[c.data][3] != kind:
                    problems.append('%s is folded with the %s comparator, it is the most %s profile' % (c.data, 'generous' if kind == 'gen' else 'greedy', 'generous' if table[c.data][3] == 'gen' else 'greedy'))
                    raise Unknown('kind')
                return r == 'better'
            return NOATOM

        def on(self, e):
            if e.kind == 'store' and e.target[0] == 'attr' and e.target[1] == SELF:
                if e.target[2] in self.state:
                    self.state[e.target[2]] = self.te.ev(e.value)
                return True
            if e.kind in ('callo', 'expr'):
                return True
            return False

        def execute(self):
            try:
                self.te.run(loop.body, self.on)
                return 'next'
            except Leave as lv:
                return lv.kind

    def expected(val, attr):
        label, tier_, helper, order = table[attr]
        old, new = Abs('old', attr), (Abs('new', size_attr) if tier_ == 'size' else Abs('stat', helper))
        if not val.get('valid'):
            return [old]
        sz = val.get('size')
        if tier_ == 'size':
            return {'gt': [new], 'eq': [old, new], 'lt': [old], None: None}[sz]
        rel = val.get(('rel', attr))
        by_rel = {'better': [new], 'equal': [old, new], 'worse': [old], None: None}[rel]
        if tier_ == 'all':
            return by_rel
        if sz == 'gt':
            return [new]
        if sz == 'lt':
            return [old]
        return by_rel if sz == 'eq' else None

    paths = 0
    mism = []
    stack = [{}]
    try:
        while stack:
            val = stack.pop()
            st = Step(val)
            try:
                out = st.execute()
            except Need as n:
                opts = {'valid': [True, False], 'size': ['gt', 'eq', 'lt']}.get(n.key, ['better', 'equal', 'worse'])
                if isinstance(n.key, tuple) and n.key[0] == 'falsy':
                    opts = [False, True]
                for o in opts:
                    v2 = dict(val); v2[n.key] = o
                    stack.append(v2)
                continue
            if any(isinstance(k_, tuple) and k_[0] == 'falsy' and o_ and val.get(('rel', k_[1])) == 'better' for k_, o_ in val.items()):
                continue              # the stored value is 0, the least these statistics can be: nothing is better
            paths += 1
            if out not in ('next', 'continue'):
                mism.append((val, None, 'the enumeration is left by %s' % out, None))
                continue
            # every accumulator: complete the valuation lazily for the expectation
            for attr in table:
                todo = [val]
                while todo:
                    v = todo.pop()
                    exp = expected(v, attr)
                    if exp is None:
                        # the code did not look at a relation the specification depends on: the result must be right either way
                        key = 'size' if v.get('size') is None and table[attr][1] != 'all' else ('rel', attr)
                        if key == 'size' and 'size' in v:
                            key = ('rel', attr)
                        for o in (['gt', 'eq', 'lt'] if key == 'size' else ['better', 'equal', 'worse']):
                            if o == 'better' and key != 'size' and v.get(('falsy', key[1])):
                                continue
                            v2 = dict(v); v2[key] = o
                            todo.append(v2)
                        continue
                    got = st.state[attr]
                    if got not in exp:
                        mism.append((v, attr, got, exp))
    except Unknown as u:
        if problems:
            rep.fail('C07.R3', f.where, 'each accumulator is compared with its own statistic through its own order', got=problems[0], construct='fold kind: ' + problems[0])
        else:
            rep.inconclusive('C07.R3', f.where, 'the loop body is inside the evaluated fragment', got=str(u))
        return
    except Raises as r:
        rep.fail('C07.R3', f.where, 'the fold never fails', got=str(r), construct='fold raises')
        return
    rep.count('fold_paths', paths)
    def show_val(v):
        parts = []
        if 'valid' in v: parts.append('valid' if v['valid'] else 'invalid')
        if 'size' in v: parts.append('size %s best size' % {'gt': '>', 'eq': '==', 'lt': '<'}[v['size']])
        for k, x in v.items():
            if isinstance(k, tuple) and k[0] == 'falsy':
                if x:
                    parts.append('stored %s is 0 (falsy)' % table[k[1]][0])
            elif isinstance(k, tuple):
                parts.append('%s statistic %s than stored' % (table[k[1]][0], x) if x != 'equal' else '%s statistic equal to stored' % table[k[1]][0])
        return ', '.join(parts)
    seen_attr = set()
    for v, attr, got, exp in mism:
        if attr in seen_attr:
            continue
        seen_attr.add(attr)
        if attr is None:
            rep.fail('C07.R3', f.where, 'every matching is processed', got=got, construct='enumeration left early')
            continue
        label = table[attr][0]
        rep.fail('C07.R3', f.where, '%s (%s) after one step equals the specified fold' % (label, {'size': 'maximum size', 'maxsize': 'optimum over maximum-size matchings', 'all': 'optimum over all valid matchings'}[table[attr][1]]),
                 got='case {%s}: accumulator holds %s' % (show_val(v), describe(got)), want=' or '.join(describe(x) for x in exp), construct='fold of %s' % label, loc=loop.loc)
    for attr in table:
        if attr not in seen_attr:
            rep.ok('C07.R3', f.where, '%s: step = specified fold on every case' % table[attr][0], got='%d paths' % paths)
    # ---- R5 / R7: initial values -----------------------------------------------------------------------------------
    check_initial(rep, repo, f, table, init)


def describe(a):
    if isinstance(a, Abs):
        return {'old': 'the previous value', 'new': "this matching's size", 'stat': "this matching's statistic %s" % a.data}.get(a.tag, repr(a))
    return repr(a)


def check_matching_pairs(rep, repo, f):
    if f is None:
        return
    from ..lints import index_bound_violations, scan_entry_violations
    for line, txt in index_bound_violations(f) + scan_entry_violations(f):
        rep.fail('C07.R1', f.where, 'the search over the student\'s row examines every entry and stops at the end of the row (a project that is not on the list yields None)', got=txt,
                 want='index < len(row)', construct='search reads one past the end of the row', loc='%s:%d' % (f.relpath, line))
    it = Interp(repo)
    try:
        # optional parameters at their defaults (run() passes the tuple, and possibly a look-up table built once)
        dflt = {}
        for a_, d_ in zip(reversed(f.node.args.args), reversed(f.node.args.defaults)):
            if isinstance(d_, ast.Constant):
                dflt[a_.arg] = C(d_.value)
        effs, rv = it.run(f, dflt)
    except Unknown as u:
        rep.inconclusive('C07.R1', f.where, 'get_matching_pairs is inside the interpreted fragment', got=str(u))
        return
    m = S(f.params[1])
    t = rv
    if t[0] == 'cat':
        parts = [p for p in t[1] if p != ('list', ())]
        t = parts[0] if len(parts) == 1 else t
    ok, why = False, 'result is not one entry per assigned student'
    if t[0] == 'comp' and len(t[1]) == 1:
        b, g = t[1][0]
        dom = b[3]
        # one position per student: num_students, the rows of pairs (one per student line, C10.R2) or the enumerated tuple itself
        n_students = (A(lp.MODEL, 'num_students'), CALL(S('len'), [A(lp.MODEL, 'pairs')]), CALL(S('len'), [m]))
        if dom[0] == 'call' and dom[1] == S('range') and len(dom[2]) == 1 and dom[2][0] in n_students:
            mi = I(m, b)
            guard_ok = g in (NOT(CMP('Eq', mi, C(0))), CMP('NotEq', mi, C(0)), CMP('Gt', mi, C(0)), mi, NOT(CMP('Eq', C(0), mi)), CMP('NotEq', C(0), mi))
            el = t[2]
            row = I(A(lp.MODEL, 'pairs'), b)
            # search: some candidate of row b with candidate.projectID == matching[b]; None otherwise
            has_none = contains(el, lambda x: x == NONE)
            def is_id_test(x, ops):
                return x[0] == 'cmp' and x[1] in ops and ((x[2][0] == 'attr' and x[2][2] == 'projectID' and x[3] == mi) or (x[3][0] == 'attr' and x[3][2] == 'projectID' and x[2] == mi))
            pol = []
            def polar(x, pos):
                if not isinstance(x, tuple):
                    return
                if x and isinstance(x[0], str):
                    if is_id_test(x, ('Eq',)):
                        pol.append(pos)
                        return
                    if is_id_test(x, ('NotEq',)):
                        pol.append(not pos)
                        return
                    if x[0] == 'not':
                        polar(x[1], not pos)
                        return
                    for y in x[1:]:
                        polar(y, pos)
                else:
                    for y in x:
                        polar(y, pos)
            polar(el, True)
            cands = [p_ for p_ in pol if p_] if pol and all(pol) else []
            if pol and not all(pol):
                # a negated id test selects the wrong entries when it is the guard of the assignment itself; anywhere else
                # (a skip-while-different scan, say) it may be right: not judged
                direct = el[0] == 'accum' and any(en[0] == 'assign' and any(g_[0] == 'not' and is_id_test(g_[1], ('Eq',)) or is_id_test(g_, ('NotEq',)) for _, g_ in en[3]) for en in el[2])
                if not direct:
                    rep.inconclusive('C07.R1', f.where, 'the search selects the entry by a positive test projectID == m', got=show(el)[:160])
                    return
            from_row = contains(el, lambda x: x == row)
            other_rows = contains(el, lambda x: x[0] == 'idx' and x[1] == A(lp.MODEL, 'pairs') and x[2] != b)
            # a per-row table {projectID: pair} consulted with .get(m): the (first / only) pair of row b with that id, else None
            def row_table(x):
                if x[0] == 'idx' and x[2] == b and x[1][0] == 'comp' and len(x[1][1]) == 1 and x[1][1][0][1] == TRUE and x[1][1][0][0][3] == A(lp.MODEL, 'pairs'):
                    rowb, D = x[1][1][0][0], x[1][2]
                    if D[0] == 'accum' and D[1] in (('dict', ()), CALL(S('dict'), [])) and len(D[2]) == 1 and D[2][0][0] in ('setdefidx', 'setidx') and len(D[2][0][3]) == 1:
                        op_, key_, val_, ch_ = D[2][0]
                        pb = ch_[0][0]
                        return pb[3] == rowb and ch_[0][1] == TRUE and key_ == A(pb, 'projectID') and val_ == pb
                if x[0] == 'dictcomp' or (x[0] == 'idx' and x[1][0] == 'comp' and x[1][2][0] == 'dictcomp'):
                    d_ = x if x[0] == 'dictcomp' else x[1][2]
                    return len(d_[1]) == 1 and d_[1][0][1] == TRUE and d_[2] == A(d_[1][0][0], 'projectID') and d_[3] == d_[1][0][0] and \
                        (d_[1][0][0][3] == row or (x[0] == 'idx' and x[2] == b and x[1][1][0][0][3] == A(lp.MODEL, 'pairs') and d_[1][0][0][3] == x[1][1][0][0]))
                return False
            if el[0] == 'call' and el[1][0] == 'attr' and el[1][2] == 'get' and len(el[2]) in (1, 2) and el[2][0] == mi and (len(el[2]) == 1 or el[2][1] == NONE) \
                    and row_table(el[1][1]) and guard_ok:
                rep.ok('C07.R1', f.where, 'student i with project number m != 0 contributes the pair of row i with projectID == m (None when absent); 0 contributes nothing',
                       got='per-row table {projectID: pair}.get(m)')
                return
            # every look at the row uses the scan position itself: row[j] tested and row[j] taken (row[j + 1] is another entry)
            subs = {x[2] for x in walk(el) if x[0] == 'idx' and x[1] == row}
            shifted = [k_ for k_ in subs if k_[0] == 'bin']
            if not guard_ok:
                why = 'entries are produced when %s, expected: project number != 0' % show(g)
            elif shifted or len(subs) > 1:
                why = 'the entry that is tested and the entry that is taken are row[%s]: not one and the same scan position' % ', '.join(sorted(show(k_) for k_ in subs))
            elif not cands:
                why = 'the pair is not selected by projectID == the enumerated project number'
            elif not from_row or other_rows:
                why = "the pair is not taken from the student's own row pairs[i]"
            elif not has_none:
                why = 'no None entry for a project the student does not find acceptable'
            else:
                ok = True
    rep.check(ok, 'C07.R1', f.where, 'student i with project number m != 0 contributes the pair of row i with projectID == m (None when absent); 0 contributes nothing',
              got=show(rv)[:160] if ok else why, construct='get_matching_pairs schema')


def check_initial(rep, repo, f, table, init):
    # R5: profile lengths
    mr = repo.method('Model', '_get_max_rank')
    gp = repo.method('Model', '_get_profile')
    try:
        _, mr_rv = Interp(repo).run(mr, {}, selfterm=lp.MODEL)
        _, gp_rv = Interp(repo).run(gp, {}, selfterm=lp.MODEL)
    except Unknown as u:
        rep.inconclusive('C07.R5', gp.where, 'profile helpers inside the interpreted fragment', got=str(u))
        return
    # "one entry per rank up to the instance's maximum rank": the number both profiles are sized by IS the largest student rank
    from .c11 import ref_max_rank
    from ..canon import canon as _canon0, equiv as _equiv0
    try:
        same_mr = _equiv0(_canon0(mr_rv), ref_max_rank())
    except Unknown:
        same_mr = None
    if same_mr is None:
        rep.inconclusive('C07.R5', mr.where, '_get_max_rank is inside the aggregate algebra', got=show(mr_rv)[:120])
    else:
        rep.check(same_mr, 'C07.R5', mr.where, 'the maximum rank is the largest rank_student over all acceptable pairs (ranks are per tie group: not the length of the longest list)',
                  got=show(mr_rv)[:140], want='max(pair.rank_student for every pair)', construct='maximum rank')
    plen = list_length(gp_rv)
    if plen is None:
        rep.inconclusive('C07.R5', gp.where, 'length of the profile returned by _get_profile is [0] * N', got=show(gp_rv)[:100])
    else:
        from ..canon import canon as _canon, equiv as _equiv
        same = alpha(plen) == alpha(mr_rv)
        if not same:
            try:
                same = _equiv(_canon(plen), _canon(mr_rv))
            except Unknown:
                same = False
        rep.check(same, 'C07.R5', gp.where, '_get_profile returns one counter per rank up to the maximum rank', got=show(plen)[:100], want='_get_max_rank()',
                  construct='profile length')
    for attr, (label, tier_, helper, order) in sorted(table.items()):
        if tier_ != 'all':
            continue
        v = init.get(attr)
        if v is None:
            rep.fail('C07.R7', f.where, '%s has an initial value' % label, got='no store before the loop', construct='initial ' + label)
            continue
        if order in ('gen', 'gre'):
            # must be the all-zero profile of full length: [0] * max_rank (or the profile of the empty matching)
            n = None
            if v[0] == 'bin' and v[1] == 'Mult':
                lst, n = (v[2], v[3]) if v[2][0] == 'list' else (v[3], v[2])
                if lst != ('list', (C(0),)):
                    n = None
            empty = v[0] == 'call' and lp.model_attr(v[1]) == repo.actual('Model', '_get_profile') and v[2] == (('list', ()),)
            if empty:
                rep.ok('C07.R5', f.where, 'initial %s is the profile of the empty matching: all zeros, full length' % label, got=show(v))
                rep.ok('C07.R7', f.where, 'initial %s (all zeros) is no more %s than any profile' % (label, 'greedy' if order == 'gre' else 'generous'), got=show(v))
                continue
            if n is None:
                rep.fail('C07.R7', f.where, 'initial %s is the all-zero profile (the least %s one)' % (label, 'greedy' if order == 'gre' else 'generous'), got=show(v)[:100], want='[0] * max rank',
                         construct='initial ' + label)
                continue
            is_mr = (n[0] == 'call' and lp.model_attr(n[1]) == repo.actual('Model', '_get_max_rank') and not n[2])
            rep.check(is_mr, 'C07.R5', f.where, 'initial %s has one entry per rank up to the maximum rank, like every profile it is compared with' % label, got=show(v), want='[0] * self.model._get_max_rank()',
                      construct='initial %s length' % label)
            if order == 'gre':
                rep.ok('C07.R7', f.where, 'initial %s (all zeros) is no more greedy than any profile' % label, got=show(v))
            else:
                rep.fail('C07.R7', f.where, 'an all-zero profile is not neutral for the generous order', got=show(v), construct='initial ' + label)
            continue
        # minima over all matchings
        kind = 'max' if 'max' in helper else 'sum'
        res = dominates_bound(repo, v, kind)
        if res is True:
            rep.ok('C07.R7', f.where, 'initial %s dominates every attainable value' % label, got=show(v), want='>= max upper quota' if kind == 'max' else '>= sum of upper quotas')
        elif res is None:
            rep.inconclusive('C07.R7', f.where, 'initial %s is a polynomial in the instance sizes and quotas' % label, got=show(v)[:120])
        else:
            rep.fail('C07.R7', f.where, 'initial %s is neutral: at least the largest attainable %s deviation on every instance' % (label, 'maximum' if kind == 'max' else 'total'),
                     got='%s: %s' % (show(v)[:100], res), want='an upper bound such as max upper quota%s' % ('' if kind == 'max' else ' * number of lecturers'), construct='initial ' + label)


def list_length(t):
    """length of a list-valued term built from [x] * N by in-place updates"""
    if t[0] == 'accum' and all(op in ('addidx', 'setidx') for op, _, _, _ in t[2]):
        return list_length(t[1])
    if t[0] == 'bin' and t[1] == 'Mult':
        for lst, n in ((t[2], t[3]), (t[3], t[2])):
            if lst[0] == 'list' and len(lst[1]) == 1:
                return n
    if t[0] == 'comp' and len(t[1]) == 1 and t[1][0][1] == TRUE:
        d = t[1][0][0][3]
        if d[0] == 'call' and d[1] == S('range') and len(d[2]) == 1:
            return d[2][0]
        if d[0] == 'call' and d[1] == S('range') and len(d[2]) == 2:
            lo, hi = d[2]
            if lo == C(0):
                return hi
            if lo[0] == 'const' and isinstance(lo[1], int) and hi[0] == 'bin' and hi[1] == 'Add' and hi[3] == lo:
                return hi[2]                      # range(c, N + c)
            if lo[0] == 'const' and isinstance(lo[1], int) and hi[0] == 'bin' and hi[1] == 'Add' and hi[2] == lo:
                return hi[3]
        if d[0] not in ('call',) :
            return list_length(d)                 # one entry per element of another list
    if t[0] == 'call' and t[1] == S('list') and len(t[2]) == 1:
        return list_length(t[2][0])
    return None


def dominates_bound(repo, v, kind):
    """True / None (not a polynomial over the known atoms) / reason string"""
    import math
    if v[0] == 'call' and v[1] == S('float') and len(v[2]) == 1 and v[2][0] in (C('inf'), C('Inf'), C('infinity')):
        return True
    if v in (A(S('math'), 'inf'), A(S('sys'), 'maxsize')):
        return True
    if v[0] == 'call' and lp.model_attr(v[1]) in tuple(repo.actual('Model', x) for x in ('_get_max_lec_abs_diff', '_get_sum_lec_abs_diff', '_get_lec_abs_diffs')):
        return 'the deviation of one particular assignment (%s), which need not be valid and can be smaller than that of every valid matching' % show(v[2][0] if v[2] else v)[:40]
    luq = A(lp.MODEL, 'lec_upper_quotas')
    gm = repo.classes['Model'].get('get_max_lec_upper_quota')
    gm_ok = False
    if gm is not None:
        try:
            _, rv = Interp(repo).run(gm, {}, selfterm=lp.MODEL)
            gm_ok = rv == CALL(S('max'), [luq])
        except Unknown:
            gm_ok = False
    def poly(t):
        if is_num(t) and isinstance(t[1], int):
            return pconst(t[1])
        if t == CALL(S('max'), [luq]) or (gm_ok and t[0] == 'call' and lp.model_attr(t[1]) == 'get_max_lec_upper_quota' and not t[2]):
            return patom('MAXLUQ')
        if t == CALL(S('sum'), [luq]):
            return patom('SUMLUQ')
        if t[0] == 'call' and t[1] in (S('max'), S('sum')) and len(t[2]) == 1 and lp.model_attr(t[2][0]) in OTHER_LISTS:
            return patom(('MAX' if t[1] == S('max') else 'SUM') + OTHER_LISTS[lp.model_attr(t[2][0])])
        a = lp.model_attr(t)
        if a in ('num_lecturers', 'num_students', 'num_projects'):
            return patom({'num_lecturers': 'L', 'num_students': 'n', 'num_projects': 'P'}[a])
        if t[0] == 'bin' and t[1] in ('Add', 'Sub', 'Mult'):
            x, y = poly(t[2]), poly(t[3])
            if x is None or y is None:
                return None
            return {'Add': padd, 'Sub': psub, 'Mult': pmul}[t[1]](x, y)
        return None
    p = poly(v)
    if p is None:
        return None
    bounds = [patom('MAXLUQ')] if kind == 'max' else [patom('SUMLUQ'), pmul(patom('MAXLUQ'), patom('L'))]
    for bnd in bounds:
        d = psub(p, bnd)
        if all(c >= 0 for c in d.values()):
            return True
    # witness instances: one valuation of the atoms each, with the largest deviation a valid matching attains on it
    for w in WITNESSES:
        val = 0
        for mono, c in p.items():
            term = c
            for a_ in mono:
                term *= w['atoms'][a_]
            val += term
        worst = w['max'] if kind == 'max' else w['sum']
        if val < worst:
            return 'on the instance {%s} it is %d, while a valid matching with %s deviation %d exists' % (w['text'], val, 'maximum' if kind == 'max' else 'total', worst)
    if any(a_ not in ('MAXLUQ', 'SUMLUQ', 'L') for mono in p for a_ in mono):
        return None
    return 'not shown to be >= %s' % (' or '.join(pshow(x) for x in bounds))


OTHER_LISTS = {'lec_targets': 'TGT', 'lec_lower_quotas': 'LLQ', 'proj_upper_quotas': 'PUQ', 'proj_lower_quotas': 'PLQ'}
# lecturers as (lower quota, target, upper quota); every project has room for all students of its lecturer
WITNESSES = [
    {'text': 'one lecturer (lq 0, target 1, uq 5), 5 students, one project with 5 places', 'max': 4, 'sum': 4,
     'atoms': {'MAXLUQ': 5, 'SUMLUQ': 5, 'MAXTGT': 1, 'SUMTGT': 1, 'MAXLLQ': 0, 'SUMLLQ': 0, 'MAXPUQ': 5, 'SUMPUQ': 5, 'MAXPLQ': 0, 'SUMPLQ': 0, 'L': 1, 'n': 5, 'P': 1}},
    {'text': 'two lecturers (lq 0, target 3, uq 3), no student', 'max': 3, 'sum': 6,
     'atoms': {'MAXLUQ': 3, 'SUMLUQ': 6, 'MAXTGT': 3, 'SUMTGT': 6, 'MAXLLQ': 0, 'SUMLLQ': 0, 'MAXPUQ': 3, 'SUMPUQ': 6, 'MAXPLQ': 0, 'SUMPLQ': 0, 'L': 2, 'n': 0, 'P': 2}},
    {'text': 'three lecturers (lq 0, target 0, uq 2), 6 students, three projects with 2 places', 'max': 2, 'sum': 6,
     'atoms': {'MAXLUQ': 2, 'SUMLUQ': 6, 'MAXTGT': 0, 'SUMTGT': 0, 'MAXLLQ': 0, 'SUMLLQ': 0, 'MAXPUQ': 2, 'SUMPUQ': 6, 'MAXPLQ': 0, 'SUMPLQ': 0, 'L': 3, 'n': 6, 'P': 3}},
    {'text': 'one lecturer (lq 0, target 0, uq 4) offering four projects with 1 place, 4 students', 'max': 4, 'sum': 4,
     'atoms': {'MAXLUQ': 4, 'SUMLUQ': 4, 'MAXTGT': 0, 'SUMTGT': 0, 'MAXLLQ': 0, 'SUMLLQ': 0, 'MAXPUQ': 1, 'SUMPUQ': 4, 'MAXPLQ': 0, 'SUMPLQ': 0, 'L': 1, 'n': 4, 'P': 4}},
]


# ---- R2 validity table ---------------------------------------------------------------------------------------------
SORT_OF = {'num_students': 'S', 'num_projects': 'P', 'num_lecturers': 'L'}
KEY_OF = {'S': 'student_index', 'P': 'project_index', 'L': 'lecturer_index'}
QUOTAS = {'proj_lower_quotas': ('lq', 'P'), 'proj_upper_quotas': ('uq', 'P'), 'lec_lower_quotas': ('lq', 'L'), 'lec_upper_quotas': ('uq', 'L')}


def not_none_guard(g, bb):
    """g is `bb is not None` in one of its spellings (the None entries are rejected by a check of their own: none_checked)"""
    if g[0] == 'not' and g[1][0] == 'cmp' and g[1][1] in ('Eq', 'Is') and g[1][2] == bb and g[1][3] == NONE:
        return True
    return g[0] == 'cmp' and g[1] in ('NotEq', 'IsNot') and g[2] == bb and g[3] == NONE


def count_sort(t, param):
    """t = the array of assignment counts per agent of one sort, built from `param` -> sort or None"""
    if t[0] == 'call' and t[1] in (S('Counter'), A(S('collections'), 'Counter')) and len(t[2]) == 1 and t[2][0][0] == 'comp' and len(t[2][0][1]) == 1:
        bb, g = t[2][0][1][0]
        key = t[2][0][2]
        if bb[3] == param and key[0] == 'attr' and key[1] == bb:
            for srt, k in KEY_OF.items():
                if key[2] == k and g == TRUE:
                    return srt
            return ('BAD', 'a Counter over pair.%s%s' % (key[2], '' if g == TRUE else ' under ' + show(g)))
    if t[0] == 'accum' and len(t[2]) == 1:
        n = list_length(t[1])
        op, idx, val, ch = t[2][0]
        if n is not None and t[1][0] == 'bin' and C(0) in (t[1][2][1] if t[1][2][0] == 'list' else t[1][3][1]) and op == 'addidx' and val == C(1) and len(ch) == 1:
            bb, g = ch[0]
            sort = SORT_OF.get(lp.model_attr(n))
            if sort and bb[3] == param and (g == TRUE or not_none_guard(g, bb)) and idx == A(bb, KEY_OF[sort]):
                return sort
            if sort and bb[3] == param and idx[0] == 'attr' and idx[1] == bb:
                return ('BAD', 'counts per %s are incremented at pair.%s%s' % (sort, idx[2], '' if g == TRUE else ' under ' + show(g)))
    return None


def check_validity(rep, repo):
    f = repo.classes[BF].get('is_valid')
    if f is None:
        rep.inconclusive('C07.R2', BF, 'is_valid exists', got='missing')
        return
    it = Interp(repo)
    try:
        effs, rv = it.run(f, {})
    except Unknown as u:
        rep.inconclusive('C07.R2', f.where, 'is_valid is inside the interpreted fragment', got=str(u))
        return
    param = S(f.params[1])
    PC = I(A(SELF, 'instance_options'), A(S('Instance_options'), 'PC'))
    # flatten inlined helper calls at top level
    def flat(es):
        out = []
        skip = set()
        for k_, e in enumerate(es):
            if id(e) in skip:
                continue
            if e.kind == 'call' and k_ + 1 < len(es) and es[k_ + 1].kind == 'return' and (es[k_ + 1].value[0] == 'top' or (es[k_ + 1].value[0] == 'call' and getattr(e, 'target', None) is not None
                                                                                                           and show(es[k_ + 1].value[1]).endswith(e.target.name))):
                # `return helper(...)`: the verdict IS the helper's verdict - its checks and its own final return take the place
                out += flat(e.body)
                skip.add(id(es[k_ + 1]))
            elif e.kind == 'call':
                out += [x for x in flat(e.body) if x.kind != 'return']      # the callee's own return resumes here
            elif e.kind == 'if' and getattr(e, 'synthetic', False) and not e.orelse:
                out += flat(e.then)             # the statements after `if c: return False`, which run when c is false
            else:
                out.append(e)
        return out
    top = flat(effs)

    def is_counter(t):
        return t[0] == 'call' and t[1] in (S('Counter'), A(S('collections'), 'Counter'))

    def domain_kind(b):
        """-> (sort, present_only, count terms, index terms) of a loop / comprehension binder, or None"""
        dom = b[3]
        if dom == param:
            return ('pair', False, [], [])
        if dom[0] == 'call' and dom[1] == S('range') and len(dom[2]) == 1 and lp.model_attr(dom[2][0]) in SORT_OF:
            return (SORT_OF[lp.model_attr(dom[2][0])], False, [], [b, ('indexof', b)])
        if dom[0] == 'call' and dom[1] == S('range') and len(dom[2]) == 1 and dom[2][0][0] == 'call' and dom[2][0][1] == S('len') and len(dom[2][0][2]) == 1 \
                and lp.model_attr(dom[2][0][2][0]) in QUOTAS:
            # range(len(model.<quota vector>)): one entry per agent of that sort (the reader appends one per project / lecturer line: C10.R3)
            return (QUOTAS[lp.model_attr(dom[2][0][2][0])][1], False, [], [b, ('indexof', b)])
        if dom[0] == 'call' and dom[1][0] == 'attr' and not dom[2] and is_counter(dom[1][1]):
            cs = count_sort(dom[1][1], param)
            if isinstance(cs, str):
                if dom[1][2] == 'values':
                    return (cs, True, [b], [])
                if dom[1][2] == 'items':
                    return (cs, True, [I(b, C(1))], [I(b, C(0))])
                if dom[1][2] == 'keys':
                    return (cs, True, [], [b])
            return None
        if is_counter(dom):
            cs = count_sort(dom, param)
            return (cs, True, [], [b]) if isinstance(cs, str) else None
        cs = count_sort(dom, param)
        if isinstance(cs, str):
            return (cs, False, [b], [('indexof', b)])
        return None

    class Unit:
        """one rejecting check: a loop with `return False` inside, or `if any(<comprehension>): return False`"""
        def __init__(self, binder, kind, body=None, guard=TRUE, cond=None, neg=False, loc=None):
            self.binder, self.body, self.guard, self.cond, self.neg, self.loc = binder, body, guard, cond, neg, loc
            self.sort, self.present_only, self.counts, self.indices = kind

    check_loops = []
    none_checked = False
    kind_errors = []
    final = None
    for e in top:
        if e.kind == 'for':
            has_ret = any(x.kind == 'return' for x, c in iter_effects(e.body))
            b = e.binder
            kind = domain_kind(b)
            sort = kind[0] if kind else None
            if has_ret:
                if kind is None:
                    rep.inconclusive('C07.R2', f.where, 'every rejecting loop ranges over the pairs or over the agents of one sort', got=show(b[3])[:100], loc=e.loc)
                    return
                check_loops.append(Unit(b, kind, body=e.body, loc=e.loc))
            else:
                # a counting loop: pair attributes are read, absent pairs must have been rejected before
                touches = any(contains(getattr(x, 'index', None) or NONE, lambda y: y[0] == 'attr' and y[1] == b) for x, c in iter_effects(e.body) if x.kind == 'acc')
                if sort == 'pair' and touches and not none_checked:
                    guarded = all(any(cc.kind == 'if' and contains(cc.cond, lambda y: y == b) for cc, br in c) for x, c in iter_effects(e.body) if x.kind == 'acc')
                    if not guarded:
                        rep.fail('C07.R2', f.where, 'attributes of a pair are read only after absent pairs (None) were rejected: the check never fails', got='counting loop before the None check',
                                 construct='None check order', loc=e.loc)
            if sort == 'pair' and has_ret:
                none_checked = True
        elif e.kind == 'return':
            final = e.value
            # return all(ok(x) for x in D) [and ...]: the last checks folded into the verdict
            parts = list(final[2]) if (final[0] == 'bool' and final[1] == 'and') else [final]
            units = []
            for c in parts:
                neg = False
                if c[0] == 'not':
                    c, neg = c[1], True
                if c[0] == 'call' and c[1] in (S('any'), S('all')) and len(c[2]) == 1 and c[2][0][0] == 'comp' and len(c[2][0][1]) == 1 and ((c[1] == S('all')) != neg):
                    b, g = c[2][0][1][0]
                    kind = domain_kind(b)
                    if kind is not None:
                        units.append(Unit(b, kind, guard=g, cond=c[2][0][2], neg=(c[1] == S('all')), loc=e.loc))
                        continue
                units = None
                break
            if units:
                check_loops += units
                final = TRUE
            break
        elif e.kind in ('acc', 'callo', 'expr', 'store'):
            continue
        elif e.kind == 'if':
            # if any(test(x) for x in D): return False      /      if not all(test(x) for x in D): return False
            c = e.cond
            neg = False
            if c[0] == 'not':
                c, neg = c[1], True
            rets = [x for x in e.then if x.kind == 'return']
            ok_shape = c[0] == 'call' and c[1] in (S('any'), S('all')) and len(c[2]) == 1 and c[2][0][0] == 'comp' and len(c[2][0][1]) == 1 \
                and ((c[1] == S('any')) != neg) and len(e.then) == 1 and rets and rets[0].value == FALSE and not e.orelse
            if not ok_shape:
                rep.inconclusive('C07.R2', f.where, 'top-level statements of is_valid are loops and a final return', got='if ' + show(e.cond)[:80], loc=e.loc)
                return
            b, g = c[2][0][1][0]
            kind = domain_kind(b)
            if kind is None:
                rep.inconclusive('C07.R2', f.where, 'every rejecting test ranges over the pairs or over the agents of one sort', got=show(b[3])[:100], loc=e.loc)
                return
            if kind[0] == 'pair' and not none_checked:
                # the counters above this statement read pair attributes: were they built before None was rejected?
                pass
            check_loops.append(Unit(b, kind, guard=g, cond=c[2][0][2], neg=(c[1] == S('all')), loc=e.loc))
            if kind[0] == 'pair':
                none_checked = True
    # a Counter over pair attributes is evaluated where it is built: absent pairs must have been rejected before
    order_seen_none = False
    for e in top:
        if (e.kind == 'for' and domain_kind(e.binder) and domain_kind(e.binder)[0] == 'pair' and any(x.kind == 'return' for x, c in iter_effects(e.body))) \
                or (e.kind == 'if' and contains(e.cond, lambda y: y == param) and not contains(e.cond, is_counter)):
            order_seen_none = True
        terms = [v for k_, v in e.__dict__.items() if isinstance(v, tuple) and v and isinstance(v[0], str)]
        if not order_seen_none and any(contains(t_, is_counter) for t_ in terms):
            rep.fail('C07.R2', f.where, 'attributes of a pair are read only after absent pairs (None) were rejected: the check never fails', got='Counter over pair attributes before the None check',
                     construct='None check order', loc=e.loc)
            break
    rep.check(final == TRUE, 'C07.R2', f.where, 'an assignment that passes every check is valid (final return True)', got=None if final is None else show(final), want='True', construct='final verdict')
    consts = set()
    for u in check_loops:
        for x, c in iter_effects(u.body or []):
            for t in ([x.cond] if x.kind == 'if' else []):
                consts |= {y[1] for y in walk(t) if is_num(y) and isinstance(y[1], int)}
        for t in ([u.cond, u.guard] if u.cond is not None else []):
            consts |= {y[1] for y in walk(t) if is_num(y) and isinstance(y[1], int)}
    K = max([1] + [c for c in consts if c >= 0]) + 3

    def verdict(sort, val):
        """does any check loop of this sort reject an element with this valuation?  -> True/False, raising on errors"""
        rejected = False
        for u in check_loops:
            if u.sort != sort:
                continue
            if u.present_only and sort != 'pair' and val['c'] == 0:
                continue                      # the check only visits agents that occur in the matching
            b = u.binder
            def atom(t, b=b, u=u):
                if sort == 'pair':
                    if t == b:
                        return val['elem']
                    return NOATOM
                if t == PC:
                    return val['pc']
                if t in u.counts:
                    return Abs('num', 'c')
                if t[0] == 'idx' and t[2] in u.indices:
                    a = lp.model_attr(t[1])
                    if a in QUOTAS:
                        nm, srt = QUOTAS[a]
                        if srt != sort:
                            kind_errors.append('%s indexed by a %s index' % (a, {'S': 'student', 'P': 'project', 'L': 'lecturer'}[sort]))
                        return Abs('num', nm)
                    cs = count_sort(t[1], param)
                    if isinstance(cs, tuple):
                        kind_errors.append(cs[1])
                        return Abs('num', 'c')
                    if cs is not None:
                        if cs != sort:
                            kind_errors.append('count per %s read at a %s index' % (cs, sort))
                        return Abs('num', 'c')
                if t[0] == 'call' and t[1][0] == 'attr' and t[1][2] == 'get' and len(t[2]) == 2 and t[2][0] in u.indices and t[2][1] == C(0):
                    cs = count_sort(t[1][1], param)
                    if isinstance(cs, str):
                        if cs != sort:
                            kind_errors.append('count per %s read at a %s index' % (cs, sort))
                        return Abs('num', 'c')
                return NOATOM
            def cmp(op, a, c):
                def num(x):
                    if isinstance(x, Abs) and x.tag == 'num':
                        return val[x.data]
                    if isinstance(x, int) and not isinstance(x, bool):
                        return x
                    return None
                x, y = num(a), num(c)
                if x is None or y is None:
                    return NOATOM
                return order_cmp(op, 'lt' if x < y else ('eq' if x == y else 'gt'))
            te = TermEval(atom, cmp)
            if u.body is None:
                if te.truth(te.ev(u.guard)):
                    hit = te.truth(te.ev(u.cond))
                    if u.neg:
                        hit = not hit
                    rejected = rejected or hit
                continue
            try:
                te.run(u.body, lambda eff: eff.kind in ('acc',))
            except Leave as lv:
                if lv.kind == 'return':
                    if lv.value is False:
                        rejected = True
                    else:
                        raise Raises('returns %r inside the %s loop' % (lv.value, sort))
                elif lv.kind == 'break':
                    raise Unknown('break inside a checking loop')
        return rejected

    try:
        # absent pairs
        n_val = 0
        if not any(u.sort == 'pair' for u in check_loops):
            rep.fail('C07.R2', f.where, 'an assignment containing an absent pair (project not on the student\'s list) is rejected', got='no loop rejects None', construct='None check missing')
        else:
            r_none = verdict('pair', {'elem': None})
            r_obj = verdict('pair', {'elem': Abs('obj', 'pair')})
            n_val += 2
            rep.check(r_none and not r_obj, 'C07.R2', f.where, 'a pair entry is rejected iff it is None', got='None -> %s, pair -> %s' % ('rejected' if r_none else 'accepted', 'rejected' if r_obj else 'accepted'),
                      construct='None check table')
        # students: no false rejection for counts 0 and 1
        if any(u.sort == 'S' for u in check_loops):
            bad = [c for c in (0, 1) if verdict('S', {'c': c, 'lq': 0, 'uq': 0, 'pc': False})]
            n_val += 2
            rep.check(not bad, 'C07.R2', f.where, 'a student with 0 or 1 project is never rejected', got='rejected at count %s' % bad if bad else 'ok', construct='student count table')
        for sort, name in (('P', 'project'), ('L', 'lecturer')):
            if not any(u.sort == sort for u in check_loops):
                rep.fail('C07.R2', f.where, '%s quotas are checked' % name, got='no loop over the %ss rejects anything' % name, construct='%s check missing' % name)
                continue
            mism = []
            for c, lq, uq in itertools.product(range(K + 1), repeat=3):
                if lq > uq:
                    continue
                for pc in (False, True):
                    got = verdict(sort, {'c': c, 'lq': lq, 'uq': uq, 'pc': pc})
                    want = spec.BF_VALID[sort](c, lq, uq, pc)
                    n_val += 1
                    if got != want:
                        mism.append((c, lq, uq, pc, got, want))
            if mism:
                c, lq, uq, pc, got, want = mism[0]
                rep.fail('C07.R2', f.where, 'the %s verdict equals the definition on every order type of (count, lower, upper) x pc (%d differ)' % (name, len(mism)),
                         got='count %d, lower quota %d, upper quota %d, pc=%s: code %s' % (c, lq, uq, pc, 'rejects' if got else 'accepts'),
                         want='rejects' if want else 'accepts', construct='%s validity table' % name)
            else:
                rep.ok('C07.R2', f.where, 'the %s verdict equals the definition on every order type of (count, lower, upper) x pc' % name, got='exhaustive over 0..%d' % K)
        rep.count('validity_valuations', n_val)
        if kind_errors:
            rep.fail('C07.R2', f.where, 'counts and quotas of one sort are compared with each other', got=sorted(set(kind_errors))[0], construct='kind error: ' + sorted(set(kind_errors))[0])
    except Unknown as u:
        rep.inconclusive('C07.R2', f.where, 'the checks touch counts and quotas through comparisons only', got=str(u))
    except Raises as r:
        rep.fail('C07.R2', f.where, 'the validity check never fails and only ever rejects', got=str(r), construct='validity raises')
