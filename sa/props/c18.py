"""C18 -- result getters are read-only and re-solving is reproducible (DESIGN.md section 5, C18).

Histories over {solve, get_results, get_results_short, get_results_long, get_debug} cannot be enumerated; what makes every
history behave is an *effect discipline* that is visible in the code:

R1 read-only getters: the mutation summary (sa/effects.py: provenance-tracked attribute / item stores, in-place methods,
   followed through the resolved call graph, fresh objects excluded) of each of the four Solver getters is empty, and
   no getter reaches a solve / variable-creating call;
R2 reset before accumulate: every in-place accumulation (append / += / extend ...) performed during solve() on an object
   that outlives the solve (Model, Pair, Solver, options) is dominated, on the path from Solver.solve, by a plain
   re-assignment of that attribute to a fresh value -- otherwise the second solve starts from the first one's leftovers;
R3 configuration is immutable: no mutation event of solve() or of a getter has the option containers on its access path;
R4 getters never fail on any solver kind / option set: attributes that only the LP set-up creates are presence-guarded
   where get_debug reads them, and a varValue that PuLP may leave None (any variable other than a pair's decision
   variable, which always occurs in the student constraint) is None-guarded before an ordering comparison;
R5 every solve starts from new objects: Solver.solve assigns self.solver from a constructor on every path before run();
   the LP problem and every decision variable are created unconditionally (no create-once / hasattr / is-None caching
   of solver state on long-lived objects)."""
import ast

from ..effects import Effects, Event, ACCUMULATORS, is_fresh
from ..cfg import CFG
from ..loader import AnalysisError

RULES = {
    'C18.R1': 'mutation summary of each Solver getter (call graph followed, fresh objects excluded) is empty; getters reach no solve / set-up call',
    'C18.R2': 'every in-place accumulation on a long-lived object during solve() is dominated by a re-assignment of that attribute to a fresh value within the same solve',
    'C18.R3': 'no mutation event of solve() or the getters touches the option containers (configuration is read-only after parsing)',
    'C18.R4': 'getters never fail: LP-only attributes are presence-guarded in get_debug; varValue of auxiliary variables is None-guarded before ordering comparisons',
    'C18.R5': 'each solve builds a new solver object, LP problem and decision variables unconditionally (no create-once caching of solver state)',
}

GETTERS = ['get_results', 'get_results_short', 'get_results_long', 'get_debug']
CONFIG = {'options_parser', 'instance_options', 'extra_constraints', 'optimisation_options', 'solver_options', 'additional_arguments'}
SOLVE_CALLS = {'solve', 'pulp_setup', 'run', 'writeLP', 'add_constraints', 'run_optimisations'}
SOLVE_CTORS = {'LpVariable', 'LpProblem', 'LP_Solver', 'Brute_force_solver'}
NONDET = {'now', 'today', 'utcnow', 'time', 'perf_counter', 'monotonic', 'random', 'choice', 'shuffle', 'randint', 'sample', 'uuid4', 'getpid'}


def run(rep, repo, tier):
    for k, v in RULES.items():
        rep.rule(k, v)
    rep.assumptions += ['PuLP: LpProblem / LpVariable objects are independent of earlier ones with the same names; varValue is None for a variable that occurs in no constraint (A3)',
                        'CBC is deterministic for one model and one set of options (A6)']
    if 'Solver' not in repo.classes:
        raise AnalysisError('anchor vanished: class Solver')
    E = Effects(repo)
    solve = repo.method('Solver', 'solve')
    getters = [repo.method('Solver', g) for g in GETTERS]
    # ---- R2 (function defaults): a default list / dict that a function of the solve or getter path fills is shared by all calls --
    from ..lints import mutable_default_mutations
    for f in sorted(E.reachable([solve] + getters), key=lambda x: x.where):
        for name, line, how in mutable_default_mutations(f):
            rep.fail('C18.R2', f.where, 'nothing is accumulated across calls: a function on the solve / getter path does not fill a default argument',
                     got='%s fills its default argument %s (%s): created once, shared by every later call' % (f.name, name, how), want='a new container per call',
                     construct='mutable default argument %s of %s' % (name, f.name), loc='%s:%d' % (f.relpath, line))
    # ---- R1 -------------------------------------------------------------------------------------------------------
    sreach0 = E.reachable([solve])
    for g in getters:
        evs = E.analyse(g)
        reach = E.reachable([g])
        seen = set()
        for ev in evs:
            key = (ev.kind, ev.loc, ev.attr)
            if key in seen:
                continue
            seen.add(key)
            why = benign_memo(ev, reach, sreach0)
            if why:
                rep.ok('C18.R1', g.where, 'a memo of the rendered value, keyed by every argument of the memoised function and emptied by each solve, does not change what the getter returns',
                       got=why, loc=ev.loc)
                continue
            rep.fail('C18.R1', g.where, 'getter is read-only', got=ev.describe(), want='no store / in-place update of an object that outlives the call',
                     construct='%s %s in %s: %s' % (ev.kind, ev.attr or '', ev.func.qualname, ev.text()), loc=ev.loc)
        if not evs:
            rep.ok('C18.R1', g.where, 'mutation summary over %d reachable functions is empty' % len(reach), got='0 events')
        bad_calls = []
        for f in reach:
            for n in ast.walk(f.node):
                if isinstance(n, ast.Call):
                    nm = n.func.attr if isinstance(n.func, ast.Attribute) else (n.func.id if isinstance(n.func, ast.Name) else None)
                    if isinstance(n.func, ast.Attribute) and nm in NONDET and nm not in repo.funcs_by_name:
                        bad_calls.append('%s:%d %s (clock / random source: the text would differ between calls)' % (f.relpath, n.lineno, ast.unparse(n)[:60]))
                    if (isinstance(n.func, ast.Attribute) and nm in SOLVE_CALLS) or (isinstance(n.func, ast.Name) and nm in SOLVE_CTORS):
                        bad_calls.append('%s:%d %s' % (f.relpath, n.lineno, ast.unparse(n)[:60]))
        rep.check(not bad_calls, 'C18.R1', g.where, 'the getter reaches no solve / set-up / variable-creating call and no clock or random source', got=bad_calls[:3] or 'none', construct='getter reaches ' + (bad_calls[0].split(' ', 1)[1] if bad_calls else ''))
        rep.count('getter_reachable_functions', len(reach))
    # ---- solve-reachable ------------------------------------------------------------------------------------------
    sevs = E.analyse(solve)
    sreach = E.reachable([solve])
    rep.count('solve_reachable_functions', len(sreach))
    rep.count('solve_mutation_events', len(sevs))
    constructed = set()
    for f in sreach:
        for n in ast.walk(f.node):
            if isinstance(n, ast.Call) and isinstance(n.func, ast.Name) and n.func.id in repo.classes:
                constructed.add(n.func.id)
    long_lived = set(repo.classes) - constructed
    check_resets(rep, repo, E, solve, sreach, long_lived)
    # what one solve records on the long-lived model must not be what the NEXT solve finds there: the time limit is written on
    # every path of solve() (a guarded store keeps the limit of an earlier solve, and get_results then reports its Timeout)
    from .c14 import check_limit_plumbing
    check_limit_plumbing(rep, repo, 'C18.R2')
    check_options_readonly(rep, repo, E, solve, getters, len(sevs), 'C18.R3')
    from ..defined import check_defined
    check_defined(rep, repo, 'C18.R4', getters + [solve], 'getters and solve')
    check_never_fail(rep, repo, E, getters)
    check_fresh_objects(rep, repo, E, solve, sreach, long_lived)


def check_options_readonly(rep, repo, E, solve, getters, nsevs, rule):
    """no mutation event of solve() / the getters has an option container (criterion list, extras, option dictionaries) on its
    access path: what was parsed is what every later solve sees"""
    n3 = 0
    seen = set()
    for root_f in [solve] + getters:
        for ev in E.analyse(root_f):
            root, names = ev.prov[1], ev.prov[2]
            tainted = [x for x in names if x in CONFIG] + ([root.split(':', 1)[1]] if root.split(':', 1)[-1] in CONFIG else [])
            if not tainted:
                continue
            # re-binding an option attribute of a per-solve object (self.solver.optimisation_options = ...) is not a mutation of the container
            if ev.kind == 'attr-store' and names and names[-1] not in CONFIG and not any(x in CONFIG for x in names):
                continue
            if ev.kind == 'attr-store' and ev.attr in CONFIG and not any(x in CONFIG for x in names):
                continue        # storing a reference to the options in a new object
            key = (ev.kind, ev.loc, ev.attr)
            if key in seen:
                continue
            seen.add(key)
            n3 += 1
            rep.fail(rule, root_f.where, 'the option containers are never modified after parsing', got=ev.describe(), want='read-only use (copy before consuming)',
                     construct='%s %s on options in %s: %s' % (ev.kind, ev.attr or '', ev.func.qualname, ev.text()), loc=ev.loc)
    if not n3:
        rep.ok(rule, solve.where, 'none of the %d mutation events of solve() and the getters has an option container on its access path' % nsevs, got='0 tainted events')


# ---- benign memoisation ----------------------------------------------------------------------------------------------------
def benign_memo(ev, reach, sreach):
    """A store into an attribute-held memo inside a getter is harmless when: (1) every access to that attribute in the
    getter slice is inside the storing function and is a lookup / membership test / store with ONE key expression;
    (2) the key mentions every parameter of that function (the rest of the state cannot change between two solves:
    that is what R1 shows for everything else); (3) the stored value does not read the memo; (4) the attribute is
    re-assigned to a fresh container on the solve path.  Returns a description, or None."""
    f = ev.func
    n = ev.node
    if ev.kind not in ('item-store', 'attr-store') or not isinstance(n, ast.Assign) or len(n.targets) != 1:
        return None
    t = n.targets[0]
    if ev.kind == 'item-store':
        if not (isinstance(t, ast.Subscript) and isinstance(t.value, ast.Attribute) and attr_path(t.value) and attr_path(t.value)[0] == 'self'):
            return None
        M, key_expr = t.value.attr, t.slice
    else:
        if not (isinstance(t, ast.Attribute) and attr_path(t) and attr_path(t)[0] == 'self'):
            return None
        M, key_expr = t.attr, None
    # (1) accesses
    for g in reach:
        for x in ast.walk(g.node):
            if isinstance(x, ast.Attribute) and x.attr == M:
                if g is not f:
                    return None
    key_txt = ast.unparse(key_expr) if key_expr is not None else None
    parents = {}
    for x in ast.walk(f.node):
        for ch in ast.iter_child_nodes(x):
            parents[id(ch)] = x
    for x in ast.walk(f.node):
        if isinstance(x, ast.Attribute) and x.attr == M:
            par = parents.get(id(x))
            if key_expr is not None:
                if isinstance(par, ast.Subscript) and par.value is x and ast.unparse(par.slice) == key_txt:
                    continue
                if isinstance(par, ast.Compare) and len(par.ops) == 1 and isinstance(par.ops[0], (ast.In, ast.NotIn)) and par.comparators[0] is x and ast.unparse(par.left) == key_txt:
                    continue
                if isinstance(par, ast.Attribute) and par.attr == 'get':
                    gp = parents.get(id(par))
                    if isinstance(gp, ast.Call) and gp.args and ast.unparse(gp.args[0]) == key_txt:
                        continue
                return None
            else:
                # attribute memo: only `is None` tests, the store, and plain reads of the stored value
                continue
    # (2) the key covers the parameters
    params = [p for p in f.params if p != 'self']
    key_names = set()
    if key_expr is not None:
        exprs = [key_expr]
        if isinstance(key_expr, ast.Name):
            for x in ast.walk(f.node):
                if isinstance(x, ast.Assign) and any(isinstance(tt, ast.Name) and tt.id == key_expr.id for tt in x.targets):
                    exprs.append(x.value)
        for e in exprs:
            key_names |= {x.id for x in ast.walk(e) if isinstance(x, ast.Name)}
    # parameters the stored value depends on (directly, or through locals computed from them)
    dep = {x.id for x in ast.walk(n.value) if isinstance(x, ast.Name)}
    changed = True
    while changed:
        changed = False
        for x in ast.walk(f.node):
            if isinstance(x, ast.Assign):
                tnames = {y.id for tt in x.targets for y in ast.walk(tt) if isinstance(y, ast.Name)}
                if tnames & dep:
                    more = {y.id for y in ast.walk(x.value) if isinstance(y, ast.Name)} - dep
                    if more:
                        dep |= more
                        changed = True
    missing = [p for p in params if p in dep and p not in key_names]
    if missing:
        return None
    # (3) the stored value does not read the memo
    if any(isinstance(x, ast.Attribute) and x.attr == M for x in ast.walk(n.value)):
        return None
    # (4) reset on the solve path
    reset = False
    for g in sreach:
        for x in ast.walk(g.node):
            if isinstance(x, ast.Assign) and any(isinstance(tt, ast.Attribute) and tt.attr == M for tt in x.targets) and is_fresh_value(x.value):
                if key_expr is not None or (isinstance(x.value, ast.Constant) and x.value.value is None):
                    reset = True
    if not reset:
        return None
    return 'memo %s in %s: key (%s) covers the parameters %s; emptied on the solve path' % (M, f.qualname, key_txt or 'none needed', params)


# ---- R2 ------------------------------------------------------------------------------------------------------------------
def attr_path(node):
    """self.a.b -> ['self', 'a', 'b'] or None"""
    out = []
    while isinstance(node, ast.Attribute):
        out.append(node.attr)
        node = node.value
    if isinstance(node, ast.Name):
        out.append(node.id)
        return list(reversed(out))
    return None


def is_fresh_value(v):
    return isinstance(v, (ast.List, ast.Dict, ast.Set, ast.ListComp, ast.DictComp, ast.SetComp, ast.Constant, ast.Tuple, ast.JoinedStr)) or \
        (isinstance(v, ast.BinOp)) or (isinstance(v, ast.Call) and isinstance(v.func, ast.Name) and v.func.id in ('list', 'dict', 'set', 'str', 'int', 'LpProblem', 'LpVariable', 'LpAffineExpression'))


_cfgs = {}


def cfg_of(f):
    if f not in _cfgs:
        _cfgs[f] = CFG(f.node)
    return _cfgs[f]


def resets_in(f, objpath, attr):
    """CFG nodes of `<objpath>.<attr> = <fresh>` in f"""
    out = []
    for n in ast.walk(f.node):
        if isinstance(n, ast.Assign):
            for t in n.targets:
                if isinstance(t, ast.Attribute) and t.attr == attr and attr_path(t.value) == objpath and is_fresh_value(n.value):
                    out.append(n)
    return out


def covered(E, sreach, f, node, objpath, attr, depth=0, seen=None):
    """is `node` in f dominated (through callers up to Solver.solve) by a reset of objpath.attr ?  -> (bool, explanation)"""
    seen = seen or set()
    cfg = cfg_of(f)
    target = cfg.node_of(node)
    if target is None:
        return False, 'statement not found in the flow graph of %s' % f.qualname
    for r in resets_in(f, objpath, attr):
        rn = cfg.node_of(r)
        if rn is not None and rn is not target and cfg.dominates(rn, target):
            return True, 'reset at %s:%d dominates' % (f.relpath, r.lineno)
    if f.qualname == 'Solver.solve' or depth > 5 or f in seen:
        return False, 'no re-assignment of %s.%s to a fresh value on the way from Solver.solve' % ('.'.join(objpath), attr)
    seen = seen | {f}
    # all call sites of f inside the solve-reachable graph
    sites = []
    for g in sreach:
        for cnode, cs in E.calls.get(g, []):
            if f in cs:
                sites.append((g, cnode))
    if not sites:
        return False, 'no caller of %s found under Solver.solve' % f.qualname
    why = ''
    for g, cnode in sites:
        # the object in the caller's terms
        if objpath[0] == 'self':
            if f.name == '__init__' and isinstance(cnode.func, ast.Name):
                if len(objpath) == 1:
                    return True, 'object constructed in this solve'
                # a field of the new object: which constructor argument was stored in it?
                field, actual = objpath[1], None
                for s_ in f.node.body:
                    if isinstance(s_, ast.Assign) and any(attr_path(t) == ['self', field] for t in s_.targets if isinstance(t, ast.Attribute)) and isinstance(s_.value, ast.Name):
                        params = f.params[1:]
                        if s_.value.id in params:
                            k = params.index(s_.value.id)
                            if k < len(cnode.args):
                                actual = attr_path(cnode.args[k])
                            for kw in cnode.keywords:
                                if kw.arg == s_.value.id:
                                    actual = attr_path(kw.value)
                if actual is None:
                    return False, 'field %s of the constructed object is not a constructor argument' % field
                ok, why = covered(E, sreach, g, cnode, actual + objpath[2:], attr, depth + 1, seen)
                if not ok:
                    return False, why
                continue
            recv = attr_path(cnode.func.value) if isinstance(cnode.func, ast.Attribute) else None
            if recv is None:
                return False, 'receiver of %s not an access path' % ast.unparse(cnode)[:40]
            cal_obj = recv + objpath[1:]
        else:
            return False, 'accumulation through a parameter'
        ok, why = covered(E, sreach, g, cnode, cal_obj, attr, depth + 1, seen)
        if not ok:
            return False, why
    return True, why


def check_resets(rep, repo, E, solve, sreach, long_lived):
    n = 0
    for f in sreach:
        if f.cls is None:
            continue
        E.analyse(f)
        for ev in E.summaries.get(f, []):
            if ev.chain or ev.func is not f:
                continue                      # own events only; callees are visited themselves
            root, names = ev.prov[1], ev.prov[2]
            if root != 'self':
                continue
            acc = ev.kind in ('attr-acc', 'item-acc') or (ev.kind == 'method' and ev.attr in ACCUMULATORS)
            # taking things OUT of (or reordering) a container that outlives the solve is the same hazard as adding to it
            destr = (ev.kind == 'method' and ev.attr in ('pop', 'remove', 'clear', 'sort', 'reverse', 'popitem', 'discard', 'popleft')) or (ev.kind == 'del' and '[]' in names)
            if not (acc or destr):
                continue
            # which object / attribute accumulates
            if ev.kind == 'attr-acc':
                objnames, attr = list(names), ev.attr
            else:
                plain = [x for x in names if x != '[]']
                if not plain:
                    continue
                objnames, attr = plain[:-1], plain[-1]
            # class of the accumulating object: self (f.cls) or self.model (Model) ...
            owner = f.cls if not objnames else {'model': 'Model', 'solver': None, 'options_parser': 'Options_parser'}.get(objnames[-1], '?')
            if owner not in long_lived:
                continue
            n += 1
            ok, why = covered(E, sreach, f, ev.node, ['self'] + objnames, attr)
            rep.check(ok, 'C18.R2', f.where, '%s %s.%s (object of class %s outlives the solve) starts from a value re-created in this solve' % (
                      'removal from / reordering of' if destr else 'accumulation into', '.'.join(['self'] + objnames), attr, owner),
                      got=why, want='<obj>.%s = <fresh value> dominating the accumulation' % attr,
                      construct='accumulation %s.%s without reset' % (owner, attr), loc=ev.loc)
    rep.count('accumulations_on_long_lived', n)
    if n == 0:
        rep.ok('C18.R2', solve.where, 'solve() performs no in-place accumulation on an object that outlives it', got='0 sites')


# ---- R4 ------------------------------------------------------------------------------------------------------------------
def lp_only_attrs(repo):
    """attributes of Model / Pair that only the LP set-up (functions named pulp_setup) assigns"""
    setup, other = set(), set()
    for cname in ('Model', 'Pair'):
        for name, f in repo.classes.get(cname, {}).items():
            for n in ast.walk(f.node):
                if isinstance(n, (ast.Assign, ast.AugAssign, ast.AnnAssign)):
                    for t in (n.targets if isinstance(n, ast.Assign) else [n.target]):
                        if isinstance(t, ast.Attribute) and isinstance(t.value, ast.Name) and t.value.id == 'self':
                            (setup if name == 'pulp_setup' else other).add(t.attr)
    return setup - other


class GuardWalk(ast.NodeVisitor):
    """visits every expression with the set of facts established by enclosing tests:
       ('has', obj, attr)  hasattr(obj, 'attr') holds ;  ('nn', expr)  expr is not None / truthy"""
    def __init__(self, on_expr):
        self.on_expr = on_expr

    def facts_of(self, test, positive):
        out = set()
        if isinstance(test, ast.UnaryOp) and isinstance(test.op, ast.Not):
            return self.facts_of(test.operand, not positive)
        if isinstance(test, ast.BoolOp):
            if isinstance(test.op, ast.And) and positive:
                for v in test.values:
                    out |= self.facts_of(v, True)
            if isinstance(test.op, ast.Or) and not positive:
                for v in test.values:
                    out |= self.facts_of(v, False)
            return out
        if isinstance(test, ast.Call) and isinstance(test.func, ast.Name) and test.func.id == 'hasattr' and len(test.args) == 2 and isinstance(test.args[1], ast.Constant):
            if positive:
                out.add(('has', ast.unparse(test.args[0]), test.args[1].value))
            return out
        if isinstance(test, ast.Compare) and len(test.ops) == 1:
            l, r, op = test.left, test.comparators[0], test.ops[0]
            none_r = isinstance(r, ast.Constant) and r.value is None
            if none_r and isinstance(op, (ast.IsNot, ast.NotEq)) and positive:
                out.add(('nn', ast.unparse(l)))
            if none_r and isinstance(op, (ast.Is, ast.Eq)) and not positive:
                out.add(('nn', ast.unparse(l)))
            return out
        if positive and isinstance(test, (ast.Attribute, ast.Name, ast.Subscript)):
            out.add(('nn', ast.unparse(test)))
        return out

    def walk_stmts(self, stmts, facts):
        for s in stmts:
            self.walk_stmt(s, facts)

    def walk_stmt(self, s, facts):
        if isinstance(s, ast.If):
            self.walk_expr(s.test, facts)
            self.walk_stmts(s.body, facts | self.facts_of(s.test, True))
            self.walk_stmts(s.orelse, facts | self.facts_of(s.test, False))
        elif isinstance(s, (ast.For, ast.While)):
            self.walk_expr(s.iter if isinstance(s, ast.For) else s.test, facts)
            self.walk_stmts(s.body, facts | (self.facts_of(s.test, True) if isinstance(s, ast.While) else set()))
            self.walk_stmts(s.orelse, facts)
        elif isinstance(s, ast.With):
            for i in s.items:
                self.walk_expr(i.context_expr, facts)
            self.walk_stmts(s.body, facts)
        elif isinstance(s, ast.Try):
            self.walk_stmts(s.body, facts)
            for h in s.handlers:
                self.walk_stmts(h.body, facts)
            self.walk_stmts(s.orelse, facts)
            self.walk_stmts(s.finalbody, facts)
        elif isinstance(s, (ast.FunctionDef, ast.ClassDef)):
            return
        else:
            for ch in ast.iter_child_nodes(s):
                if isinstance(ch, ast.expr):
                    self.walk_expr(ch, facts)

    def walk_expr(self, e, facts):
        if isinstance(e, ast.BoolOp):
            cur = set(facts)
            for v in e.values:
                self.walk_expr(v, cur)
                cur = cur | self.facts_of(v, isinstance(e.op, ast.And))
            return
        if isinstance(e, ast.IfExp):
            self.walk_expr(e.test, facts)
            self.walk_expr(e.body, facts | self.facts_of(e.test, True))
            self.walk_expr(e.orelse, facts | self.facts_of(e.test, False))
            return
        if isinstance(e, (ast.ListComp, ast.SetComp, ast.GeneratorExp, ast.DictComp)):
            cur = set(facts)
            for g in e.generators:
                self.walk_expr(g.iter, cur)
                for c in g.ifs:
                    self.walk_expr(c, cur)
                    cur = cur | self.facts_of(c, True)
            for part in ([e.key, e.value] if isinstance(e, ast.DictComp) else [e.elt]):
                self.walk_expr(part, cur)
            return
        self.on_expr(e, facts)
        for ch in ast.iter_child_nodes(e):
            if isinstance(ch, ast.expr):
                self.walk_expr(ch, facts)


def check_never_fail(rep, repo, E, getters):
    lp_only = lp_only_attrs(repo)
    rep.count('lp_only_attributes', len(lp_only))
    if not lp_only:
        rep.inconclusive('C18.R4', 'matchingproblems/solver/model.py', 'attributes created by the LP set-up are identified', got='none found (pulp_setup vanished?)')
        return
    debug = repo.method('Solver', 'get_debug')
    debug_reach = set(E.reachable([debug]))
    all_reach = set()
    for g in getters:
        all_reach |= set(E.reachable([g]))
    n_reads = n_cmp = 0
    for f in sorted(all_reach, key=lambda x: x.where):
        in_debug = f in debug_reach
        problems = []

        def on_expr(e, facts, f=f, in_debug=in_debug):
            nonlocal n_reads, n_cmp
            if isinstance(e, ast.Attribute) and e.attr in lp_only and isinstance(e.ctx, ast.Load):
                conditional = e.attr != 'lp_var' or in_debug
                if conditional:
                    n_reads += 1
                    obj = ast.unparse(e.value)
                    if ('has', obj, e.attr) not in facts:
                        problems.append(('read', e, "%s.%s is created only by the LP set-up%s; read without hasattr(%s, '%s')" % (obj, e.attr, '' if e.attr == 'lp_var' else ' under the matching option', obj, e.attr)))
            if isinstance(e, ast.Compare) and any(isinstance(op, (ast.Lt, ast.LtE, ast.Gt, ast.GtE)) for op in e.ops):
                for side in [e.left] + list(e.comparators):
                    if isinstance(side, ast.Attribute) and side.attr == 'varValue':
                        owner = side.value
                        if isinstance(owner, ast.Attribute) and owner.attr == 'lp_var':
                            continue          # a pair's decision variable occurs in its student's constraint: always valued after a solve
                        n_cmp += 1
                        if ('nn', ast.unparse(side)) not in facts:
                            problems.append(('cmp', e, '%s may be None (variable in no constraint); compared with %s without a None test' % (ast.unparse(side), ast.unparse(e)[:50])))
        GuardWalk(on_expr).walk_stmts(f.node.body, set())
        for kind, node, msg in problems:
            rep.fail('C18.R4', f.where, 'the getter cannot fail here on any solver kind / option set', got=msg, want='presence / None guard',
                     construct='%s unguarded: %s' % (kind, ast.unparse(node)[:80]), loc='%s:%d' % (f.relpath, node.lineno))
    rep.count('guarded_lp_reads', n_reads)
    rep.count('guarded_varvalue_comparisons', n_cmp)
    if n_reads == 0:
        rep.inconclusive('C18.R4', debug.where, 'get_debug reads LP-only attributes (rule instances exist)', got='0 reads found')
    else:
        rep.ok('C18.R4', debug.where, '%d reads of LP-only attributes and %d ordering comparisons of auxiliary varValues examined' % (n_reads, n_cmp), got='all guarded')


# ---- R5 ------------------------------------------------------------------------------------------------------------------
def constructs(repo, E, func, value, depth=0):
    """the expression always evaluates to a newly constructed object of a repository class (directly, through a
    conditional expression, or through a factory helper all of whose returns do)"""
    if depth > 4:
        return False
    if isinstance(value, ast.IfExp):
        return constructs(repo, E, func, value.body, depth + 1) and constructs(repo, E, func, value.orelse, depth + 1)
    if not isinstance(value, ast.Call):
        return False
    if isinstance(value.func, ast.Name) and value.func.id in repo.classes:
        return True
    callees = E.resolve(func, value)
    if not callees:
        return False
    for c in callees:
        rets = [x for x in ast.walk(c.node) if isinstance(x, ast.Return)]
        if not rets or not all(r.value is not None and constructs(repo, E, c, r.value, depth + 1) for r in rets):
            return False
    return True


def check_fresh_objects(rep, repo, E, solve, sreach, long_lived):
    cfg = cfg_of(solve)
    assigns, runs = [], []
    for n in ast.walk(solve.node):
        if isinstance(n, ast.Assign) and any(isinstance(t, ast.Attribute) and attr_path(t) == ['self', 'solver'] for t in n.targets):
            assigns.append((n, constructs(repo, E, solve, n.value)))
        if isinstance(n, ast.Call) and isinstance(n.func, ast.Attribute) and n.func.attr == 'run' and attr_path(n.func.value) == ['self', 'solver']:
            runs.append(n)
    if not runs:
        rep.inconclusive('C18.R5', solve.where, 'solve() runs self.solver', got='no self.solver.run(...) call')
        return
    non_ctor = [a for a, c in assigns if not c]
    rep.check(not non_ctor, 'C18.R5', solve.where, 'self.solver is only ever bound to a newly constructed solver object', got=[ast.unparse(a)[:60] for a in non_ctor] or 'constructors only',
              construct='self.solver bound to a non-constructor value')
    avoid = {cfg.node_of(a).id for a, c in assigns if c and cfg.node_of(a) is not None}
    for r in runs:
        rn = cfg.node_of(r)
        ok = rn is not None and not cfg.paths_avoiding(cfg.entry, rn, avoid)
        rep.check(ok, 'C18.R5', solve.where, 'every path to self.solver.run() constructs the solver object in this solve', got='line %d' % r.lineno, want='self.solver = LP_Solver(...) / Brute_force_solver(...) on every path',
                  construct='run() reachable without constructing the solver', loc='%s:%d' % (solve.relpath, r.lineno))
    # unconditional creation of the LP problem and of the decision variables
    lpi = repo.classes.get('LP_Solver', {}).get('__init__')
    if lpi is not None:
        top = [s for s in lpi.node.body if isinstance(s, ast.Assign) and any(attr_path(t) == ['self', 'prob'] for t in s.targets if isinstance(t, ast.Attribute))
               and isinstance(s.value, ast.Call) and isinstance(s.value.func, ast.Name) and s.value.func.id == 'LpProblem']
        rep.check(bool(top), 'C18.R5', lpi.where, 'the LP problem is created unconditionally when the solver object is constructed', got='%d top-level self.prob = LpProblem(...)' % len(top),
                  construct='LpProblem creation')
    pp = repo.classes.get('Pair', {}).get('pulp_setup')
    if pp is not None:
        top = [s for s in pp.node.body if isinstance(s, ast.Assign) and any(isinstance(t, ast.Attribute) and t.attr == 'lp_var' for t in s.targets)]
        rep.check(bool(top), 'C18.R5', pp.where, "every pair's decision variable is re-created unconditionally by each set-up", got='%d top-level assignments of lp_var' % len(top), construct='lp_var creation')
    # create-once patterns on long-lived objects in solve-reachable code
    bad = []
    for f in sreach:
        if f.cls not in long_lived:
            continue
        for n in ast.walk(f.node):
            if isinstance(n, ast.If):
                tests = []
                for x in ast.walk(n.test):
                    if isinstance(x, ast.Call) and isinstance(x.func, ast.Name) and x.func.id == 'hasattr' and len(x.args) == 2 and isinstance(x.args[1], ast.Constant):
                        tests.append(x.args[1].value)
                    if isinstance(x, ast.Compare) and len(x.ops) == 1 and isinstance(x.ops[0], (ast.Is, ast.Eq, ast.IsNot, ast.NotEq)) and isinstance(x.comparators[0], ast.Constant) and x.comparators[0].value is None \
                            and isinstance(x.left, ast.Attribute) and attr_path(x.left) and attr_path(x.left)[0] == 'self':
                        tests.append(x.left.attr)
                for branch in (n.body, n.orelse):
                    for s in branch:
                        for y in ast.walk(s):
                            if isinstance(y, ast.Assign):
                                for t in y.targets:
                                    if isinstance(t, ast.Attribute) and t.attr in tests and attr_path(t) and attr_path(t)[0] == 'self':
                                        bad.append('%s:%d %s assigned only when absent' % (f.relpath, y.lineno, ast.unparse(t)))
    rep.check(not bad, 'C18.R5', solve.where, 'no create-once (hasattr / is None) caching of solver state on objects that outlive a solve', got=bad[:3] or 'none', construct='create-once: ' + (bad[0].split(' ', 1)[1] if bad else ''))
