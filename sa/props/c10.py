"""C10 -- the solver reads an instance file as the instance the file denotes (DESIGN.md section 5, C10)."""
import ast

from ..terms import *
from ..poly import *
from ..absint import Interp, iter_effects, collect_acc
from ..loader import AnalysisError
from .. import transducer as T
from .c13 import find_reader, fmt_trace
from .c02 import dominates

RULES = {
    'C10.R1': 'tokeniser transducer on the grammar (OPEN PLAIN* CLOSE | PLAIN)*: members of a group share a rank, first rank 1, each group or single entry raises it by exactly one, order kept, decoration stripped',
    'C10.R2': 'section arithmetic: the branch conditions on the line index are exactly [1,n_s], [n_s+1,n_s+n_p], [n_s+n_p+1,n_s+n_p+n_l]; ids = index - (start-1); header fields in order',
    'C10.R3': 'field -> attribute table per file kind (project line, lecturer line, 2-agent line) and the token slice that holds each preference list',
    'C10.R4': 'second-side tokens produce rank_lecturer only under -twopl, and then for every pair; every cost reader of rank_lecturer is guarded by its presence',
    'C10.R5': '2-agent embedding: hospital j = project j offered by lecturer j with the same lower/upper quota and target = upper quota',
    'C10.R7': 'no rejection of grammar-conforming files: the reader never raises on an empty preference list (agents nobody ranks have empty second-side lists)',
    'C10.R6': 'derived data: lecturer of a pair = lecturer of its project; indices = ids - 1; project/lecturer/rank lists are scatters of all pairs (C01.R4, C03.R4)',
    'C10.R8': 'the model is a function of the file text and the two format options only: import_model writes and consults no module-level state (no cache keyed by file name)',
}

E = lambda c, m: A(S(c), m)
COUNT = {'num_students': 'ns', 'num_projects': 'np', 'num_lecturers': 'nl'}


def io_term(na, twopl):
    return ('dict', ((E('Instance_options', 'NUMAGENTS'), C(na)), (E('Instance_options', 'TWOPL'), C(twopl)), (E('Instance_options', 'PC'), S('PC'))))


class Section:
    """one loop over lines of the file: kind 'index' (for i, line in enumerate(f), sections told apart by tests on i) or
    'slice' (for row in rows[a:b] with rows the token lists of all lines)"""
    def __init__(self, loop, kind, lo, hi, start_term=None):
        self.loop, self.kind, self.lo, self.hi, self.start_term = loop, kind, lo, hi, start_term
        self.binder = loop.binder


def is_open_file(t):
    return t[0] == 'call' and show(t[1]) == 'open'


def is_lines(t):
    """the list of text lines of the opened file"""
    if t[0] == 'call' and t[1][0] == 'attr' and t[1][2] == 'readlines' and is_open_file(t[1][1]) and not t[2]:
        return True
    if t[0] == 'call' and t[1] == S('list') and len(t[2]) == 1 and is_open_file(t[2][0]):
        return True
    if t[0] == 'call' and t[1][0] == 'attr' and t[1][2] == 'splitlines' and not t[2]:
        r = t[1][1]
        return r[0] == 'call' and r[1][0] == 'attr' and r[1][2] == 'read' and is_open_file(r[1][1])
    if t[0] == 'comp' and len(t[1]) == 1 and t[1][0][1] == TRUE and t[2] == t[1][0][0] and is_open_file(t[1][0][0][3]):
        return True
    return False


def tokens_of(t, line):
    """t == line.replace(':', '' or ' ').split()"""
    if t[0] == 'call' and t[1][0] == 'attr' and t[1][2] == 'split' and not t[2]:
        b = t[1][1]
        if b[0] == 'call' and b[1][0] == 'attr' and b[1][2] == 'replace' and b[1][1] == line and len(b[2]) == 2 and b[2][0] == C(':') and b[2][1] in (C(''), C(' ')):
            return True
    return False


def is_rows(t):
    """[line.replace(':', '').split() for line in LINES]"""
    if t[0] == 'comp' and len(t[1]) == 1 and t[1][0][1] == TRUE:
        b = t[1][0][0]
        src = b[3]
        if src[0] == 'slice' and src[2] in (NONE, C(0)):
            src = src[1]               # lines[:end]: a prefix keeps the line numbers (what lies behind `end` is not the instance)
        return (is_lines(src) or is_open_file(src)) and tokens_of(t[2], b)
    return False


def nonempty_file_guard(c_, br_):
    """the branch taken when the file has lines at all (`if not lines: return model` in front of everything): no condition on
    the instance - an empty file has no agents"""
    t_ = c_.cond
    neg_ = not br_
    while t_[0] == 'not':
        t_, neg_ = t_[1], not neg_
    return (not neg_) and (is_lines(t_) or (t_[0] == 'call' and t_[1] == S('len') and len(t_[2]) == 1 and is_lines(t_[2][0])))


class Reader:
    """Effect tree of _import_from_file under one (numagents, twopl) specialisation, as a set of line sections."""
    def __init__(self, repo, na, twopl):
        self.repo, self.na, self.twopl = repo, na, twopl
        self.f = repo.function('_import_from_file', repo.rel('solver', 'fileIO.py'))
        it = Interp(repo)
        try:
            self.effs, self.rv = it.run(self.f, {self.f.params[-1]: io_term(na, twopl)})        # (filename, instance options)
        except Unknown as u:
            raise AnalysisError('_import_from_file outside the interpreted fragment: %s' % u)
        self.it = it
        self.model = self.rv
        self.sections = {}
        self._find_sections()
        if not self.sections:
            raise AnalysisError('_import_from_file: expected one loop over the lines of the file, found 0')
        kinds = {s.kind for s in self.sections.values()}
        if len(kinds) != 1 or (kinds == {'index'} and len(self.sections) != 1):
            raise AnalysisError('_import_from_file: expected one loop over the lines of the file, found %d' % len(self.sections))
        self.kind = kinds.pop()
        if self.kind == 'index':
            self._resolve_header_variables()
        self.loop = next(iter(self.sections.values())).loop          # the only loop of an index reader (messages, legacy users)
        self.line = self.loop.binder
        self.idx = ('indexof', self.line)
        self._events = None

    # -- sections -------------------------------------------------------------------------------------------
    def _find_sections(self):
        self.sections = {}
        for e, ctx in iter_effects(self.effs):
            if e.kind != 'for' or any(c.kind in ('for', 'while') for c, _ in ctx):
                continue
            dom = e.binder[3]
            if is_open_file(dom) or is_lines(dom):
                self.sections[e.binder] = Section(e, 'index', pconst(0), None)
            elif dom[0] == 'slice' and is_rows(dom[1]):
                self.sections[e.binder] = Section(e, 'slice', dom[2], dom[3])

    def _resolve_header_variables(self):
        """a local computed on the header line (index 0) and read on later lines is loop-carried: on lines >= 1 it holds
        the value assigned on line 0"""
        sec = next(iter(self.sections.values()))
        loop = sec.loop
        idx = ('indexof', loop.binder)
        sites = {}
        for e, ctx in iter_effects(loop.body):
            if e.kind == 'acc' and e.op == 'assign':
                sites.setdefault(e.var, []).append((e, ctx))
        vals = {}
        for var, ss in sites.items():
            if len(ss) != 1:
                continue
            e, ctx = ss[0]
            guards = [(c.cond if br else NOT(c.cond)) for c, br in ctx if c.kind == 'if']
            if any(g in (CMP('Eq', idx, C(0)), CMP('Eq', C(0), idx)) for g in guards):
                vals[('carried', var, loop.lid)] = e.value
        if not vals:
            return
        from ..absint import map_effects
        for _ in range(4):
            self.effs = map_effects(self.effs, lambda t: vals.get(t))
        self._find_sections()

    def section_of(self, ctx):
        for c, _ in ctx:
            if c.kind == 'for' and c.binder in self.sections:
                return self.sections[c.binder]
        return None

    def events(self):
        """(effect, context) of everything executed per line of some section"""
        if self._events is None:
            self._events = [(e, ctx) for e, ctx in iter_effects(self.effs) if self.section_of(ctx) is not None]
        return self._events

    def all_events(self):
        return [(e, ctx) for e, ctx in iter_effects(self.effs) if not any(c.kind == 'call' and getattr(c.target, 'name', '') == '__init__' for c, _ in ctx)]

    def nice(self, t):
        s = show(t)
        for sec in self.sections.values():
            s = s.replace(show(sec.binder), 'line' if sec.kind == 'index' else 'fields')
        return s

    # -- polynomials over idx, ns, np, nl -----------------------------------------------------------------
    def poly(self, t):
        if t[0] == 'indexof' and t[1] in self.sections:
            sec = self.sections[t[1]]
            return patom('idx') if sec.kind == 'index' else psub(patom('idx'), self.poly(sec.lo))
        if t[0] == 'const' and isinstance(t[1], int) and not isinstance(t[1], bool):
            return pconst(t[1])
        if t[0] == 'attr' and t[2] in COUNT and t[1] == self.model:
            return patom(COUNT[t[2]])
        if t[0] == 'bin' and t[1] in ('Add', 'Sub'):
            a, b = self.poly(t[2]), self.poly(t[3])
            return padd(a, b) if t[1] == 'Add' else psub(a, b)
        if t[0] == 'un' and t[1] == 'USub':
            return pneg(self.poly(t[2]))
        if t[0] == 'bin' and t[1] == 'Mult' and (is_num(t[2]) or is_num(t[3])):
            return pmul(self.poly(t[2]), self.poly(t[3]))
        if t[0] == 'ite' and self.file_nonempty(t[1]):
            return self.poly(t[2] if t[1][0] != 'not' else t[3])          # a file of the grammar has its header line
        k, _ = self.header_field(t)
        if k in (0, 1, 2):
            # a count read straight from the header (R2 checks which attribute each field feeds)
            return patom(('ns', 'np', 'nl')[k])
        if t[0] == 'call' and t[1] in (S('max'), S('min')) and len(t[2]) == 2 and not (len(t) > 3 and t[3]):
            a, b = self.poly(t[2][0]), self.poly(t[2][1])          # a clamp that never binds (counts are >= 0)
            if dominates(a, b)[0]:
                return a if t[1] == S('max') else b
            if dominates(b, a)[0]:
                return b if t[1] == S('max') else a
        raise Unknown('not linear in the line index and the header counts: ' + show(t)[:80])

    def bound(self, g):
        """guard -> ('lo'|'hi'|'eq', poly) on idx, or None if it does not mention idx.  Any linear arrangement is accepted
        (terms may sit on either side of the comparator) as long as the index has coefficient +-1."""
        neg = False
        while g[0] == 'not':
            neg, g = not neg, g[1]
        if g[0] != 'cmp' or not contains(g, lambda x: x[0] == 'indexof' and x[1] in self.sections):
            return None
        op = g[1]
        if op not in ('Lt', 'LtE', 'Gt', 'GtE', 'Eq', 'NotEq'):
            raise Unknown('index test ' + show(g))
        d = psub(self.poly(g[2]), self.poly(g[3]))          # d <op> 0
        c = d.get(('idx',), 0)
        if c not in (1, -1) or any('idx' in m and m != ('idx',) for m in d):
            raise Unknown('index test is not linear in the line index: ' + show(g))
        rest = {m: v for m, v in d.items() if m != ('idx',)}
        # c*idx + rest <op> 0   ->   idx <op'> e
        if c == 1:
            e = pneg(rest)
        else:
            e = rest
            op = {'Lt': 'Gt', 'LtE': 'GtE', 'Gt': 'Lt', 'GtE': 'LtE', 'Eq': 'Eq', 'NotEq': 'NotEq'}[op]
        if neg:
            op = {'Lt': 'GtE', 'LtE': 'Gt', 'Gt': 'LtE', 'GtE': 'Lt', 'Eq': 'NotEq', 'NotEq': 'Eq'}[op]
        if op == 'Lt': return ('hi', psub(e, pconst(1)))
        if op == 'LtE': return ('hi', e)
        if op == 'Gt': return ('lo', padd(e, pconst(1)))
        if op == 'GtE': return ('lo', e)
        if op == 'Eq': return ('eq', e)
        if op == 'NotEq':
            if e == {}:
                return ('lo', pconst(1))       # idx != 0 and idx >= 0
            raise Unknown('index != ' + pshow(e))
        raise Unknown('index test ' + show(g))

    def file_nonempty(self, g):
        """truthiness of the list of lines / rows: a file of the grammar has a header line"""
        while g[0] == 'not':
            g = g[1]
        if g[0] == 'cmp' and g[1] in ('Gt', 'NotEq', 'GtE') and g[2][0] == 'call' and g[2][1] == S('len') and g[3] in (C(0), C(1)):
            g = g[2][2][0]
        return is_lines(g) or is_rows(g)

    def interval(self, ctx):
        sec = self.section_of(ctx)
        lo, hi = pconst(0), None
        if sec is not None and sec.kind == 'slice':
            lo = self.poly(sec.lo) if sec.lo != NONE else pconst(0)
            hi = psub(self.poly(sec.hi), pconst(1)) if sec.hi != NONE else None
        other = []
        disj_seen = []
        for c, br in ctx:
            if c.kind != 'if':
                continue
            g = c.cond if br else NOT(c.cond)
            g = boolify(simp(g))
            parts = list(g[2]) if (g[0] == 'bool' and g[1] == 'and') else [g]
            # not (A and B) with A, B lower bounds / complements: rewrite  not(not a and not b)  ->  a or b  handled below
            for part in parts:
                if part[0] == 'not' and part[1][0] == 'bool' and part[1][1] == 'and':
                    # a or b over index tests: a union of half-lines; keep it only when one side is implied by the rest
                    disj_seen.append([simp(NOT(x)) for x in part[1][2]])
                    continue
                if part[0] == 'bool' and part[1] == 'or':
                    disj_seen.append(list(part[2]))
                    continue
                if part[0] == 'call' and part[1] == S('__until_break__'):
                    part = part[2][0]
                b = self.bound(part)
                if b is None:
                    if part != TRUE and not self.file_nonempty(part):
                        other.append(part)
                    continue
                k, e = b
                if k == 'eq':
                    lo, hi = e, e
                elif k == 'lo':
                    if dominates(e, lo)[0]:
                        lo = e
                    elif not dominates(lo, e)[0]:
                        raise Unknown('incomparable lower bounds %s, %s' % (pshow(lo), pshow(e)))
                else:
                    if hi is None or dominates(hi, e)[0]:
                        hi = e
                    elif not dominates(e, hi)[0]:
                        raise Unknown('incomparable upper bounds')
        for alts in disj_seen:
            # (i < a) or (i < b): an upper bound max(a, b);  every alternative must be an index bound of the same side
            bs = [self.bound(x) for x in alts]
            if any(b is None for b in bs) or len({b[0] for b in bs}) != 1 or bs[0][0] == 'eq':
                other.append(OR(*alts))
                continue
            side = bs[0][0]
            best = bs[0][1]
            for _, e in bs[1:]:
                if side == 'hi':
                    if dominates(e, best)[0]: best = e
                    elif not dominates(best, e)[0]: raise Unknown('incomparable upper bounds')
                else:
                    if dominates(best, e)[0]: best = e
                    elif not dominates(e, best)[0]: raise Unknown('incomparable lower bounds')
            if side == 'hi':
                if hi is None or dominates(hi, best)[0]:
                    hi = best
            else:
                if dominates(best, lo)[0]:
                    lo = best
        return lo, hi, other

    def appends(self, attr):
        """append effects into model.<attr> inside a line section (with context)."""
        return [(e, ctx) for e, ctx in self.events() if e.kind == 'append' and e.target == A(self.model, attr)]

    def local_appends(self, name):
        return [(e, ctx) for e, ctx in self.events() if e.kind == 'acc' and e.var == name and e.op == 'append']

    def lecturer_of_project_appends(self):
        """the per-line appends into the local list that maps a project to its lecturer: the list is identified by its USE
        (it is what a pair's lecturer is looked up in), not by its name"""
        X = None
        for e, _ in iter_effects(self.effs):
            if e.kind == 'store' and e.target[0] == 'attr' and e.target[2] == 'lecturerID':
                for t in walk(e.value):
                    if t[0] == 'idx' and contains(t[2], lambda y: y[0] == 'attr' and y[2] in ('project_index', 'projectID')) and t[1][0] in ('comp', 'accum', 'cat', 'list'):
                        X = t[1]
        byvar = {}
        for e, ctx in self.events():
            if e.kind == 'acc' and e.op == 'append':
                byvar.setdefault(e.var, []).append((e, ctx))
        if X is not None:
            for var, aps in byvar.items():
                if all(contains(X, lambda t, v=e.value: t == v) for e, _ in aps):
                    return aps
        # ... or the model's own list, filled directly (a builder method of the model appends quotas and lecturer together)
        return self.local_appends('project_lecturers') or self.appends('proj_lecturers')

    def header_stores(self, attr):
        """[(effect, field number, (lo, hi, other))] for the stores of a header count"""
        out = []
        for e, ctx in self.all_events():
            if e.kind == 'store' and e.target == A(self.model, attr):
                k, at0 = self.header_field(e.value)
                if at0:
                    iv = (pconst(0), pconst(0), [g for g in self._other_guards(ctx)])
                else:
                    iv = self.interval(ctx)
                out.append((e, k, iv))
        return out

    def _other_guards(self, ctx):
        out = []
        for c, br in ctx:
            if c.kind == 'if':
                g = c.cond if br else NOT(c.cond)
                for part in (list(g[2]) if (g[0] == 'bool' and g[1] == 'and') else [g]):
                    if part != TRUE and not self.file_nonempty(part):
                        out.append(part)
        return out

    def fields_line(self, t):
        """is t the token list of the current line of some section?"""
        if t[0] == 'bvar' and t in self.sections and self.sections[t].kind == 'slice':
            return True
        for b, sec in self.sections.items():
            if sec.kind == 'index' and tokens_of(t, b):
                return True
        return False

    def field(self, v):
        """int(LS[k]) -> k  where LS = the token list of the current line"""
        if v[0] == 'call' and v[1] == S('int') and len(v[2]) == 1:
            x = v[2][0]
            if x[0] == 'idx' and x[2][0] == 'const' and self.fields_line(x[1]):
                return x[2][1]
        return None

    def is_fields(self, t):
        return self.fields_line(t)

    def header_field(self, v, _depth=0):
        """int(<header line>.split()[k]) -> (k, read from lines[0] directly?)"""
        if v[0] == 'attr' and v[1] == self.model and _depth < 2:
            # model.num_lecturers = model.num_projects: the count stored just before, read back (the single header store of it)
            prev = [e for e, _ in self.all_events() if e.kind == 'store' and e.target == v]
            if len(prev) == 1 and prev[0].value != v:
                return self.header_field(prev[0].value, _depth + 1)
        if v[0] == 'call' and v[1] == S('int') and len(v[2]) == 1:
            x = v[2][0]
            if x[0] == 'idx' and x[2][0] == 'const':
                b = x[1]
                if b[0] == 'ite' and self.file_nonempty(b[1]) and b[3] in (('list', ()), ('tuple', ())):
                    b = b[2]
                if b[0] == 'call' and b[1][0] == 'attr' and b[1][2] == 'split':
                    src = b[1][1]
                    if (src[0] == 'bvar' and src in self.sections) or self.fields_line(b):
                        return x[2][1], False
                    if src[0] == 'idx' and src[2] == C(0) and is_lines(src[1]):
                        return x[2][1], True
                if b[0] == 'idx' and b[2] == C(0) and is_rows(b[1]):
                    return x[2][1], True
        return None, False

    def slice_from(self, t):
        if t[0] == 'slice' and self.fields_line(t[1]) and t[2][0] == 'const' and t[3] == NONE:
            return t[2][1]
        return None

    def tokeniser_calls(self):
        """calls of the preference-list tokeniser per line: ([student-side], [second-side]) by the section they run on"""
        reader = find_reader(self.repo)
        st, sec = [], []
        for e, ctx in self.events():
            if e.kind == 'call' and e.target is reader:
                outer = [c.target.name for c, _ in ctx if c.kind == 'call']
                try:
                    lo, hi, _ = self.interval(ctx)
                    first = lo == pconst(1) and hi == patom('ns')
                except Unknown:
                    first = self.repo.actual_function('_create_pairs_row') in outer
                (st if first else sec).append((e, ctx))
        def once(xs):
            # a comprehension over a generator call evaluates its domain for the binder and again for the chain: one call site
            seen, out = set(), []
            for e, ctx in xs:
                k = (e.loc, tuple(e.args), tuple(c.loc for c, _ in ctx if c.kind == 'call'))
                if k not in seen:
                    seen.add(k)
                    out.append((e, ctx))
            return out
        return once(st), once(sec)


def own_id_ok(R, term, want, wl, wh, at_effect):
    """term is the 1-based id of the current line within its section: the linear form `want`, or len(model.<list>) read
    after this line's single append into that list (count invariant: one append per line of the section)."""
    try:
        return R.poly(term) == want
    except Unknown:
        pass
    if term[0] == 'call' and term[1] == S('len') and len(term[2]) == 1 and term[2][0][0] == 'attr' and term[2][0][1] == R.model:
        aps = R.appends(term[2][0][2])
        if len(aps) == 1:
            lo2, hi2, oth2 = R.interval(aps[0][1])
            order = {id(ee): i for i, (ee, _) in enumerate(R.events())}
            return lo2 == wl and hi2 == wh and not oth2 and order[id(aps[0][0])] < order.get(id(at_effect), 10 ** 9)
    return False


def counts_a_model_list(R, term):
    return contains(term, lambda t: t[0] == 'call' and t[1] == S('len') and len(t[2]) == 1 and t[2][0][0] == 'attr' and t[2][0][1] == R.model)


def rank_keys(R):
    """(key tuple term, effect, ctx) for every place where second-side ranks are recorded per (lecturer id, student id)."""
    out = []
    for e, ctx in R.events():
        if e.kind == 'acc' and e.op == 'setidx' and e.index is not None and e.index[0] == 'tuple' and len(e.index[1]) == 2:
            out.append((e.index, e, ctx))
            continue
        terms = [v for k, v in e.__dict__.items() if isinstance(v, tuple) and v and isinstance(v[0], str)]
        for t in terms:
            for x in walk(t):
                if x[0] == 'dictcomp' and x[2][0] == 'tuple' and len(x[2][1]) == 2:
                    out.append((x[2], e, ctx))
                # dict(zip(zip(LEC, STUDENTS), RANKS)): element-wise keys (LEC[i], STUDENTS[i])
                if x[0] == 'call' and x[1] == S('dict') and len(x[2]) == 1 and x[2][0][0] == 'call' and x[2][0][1] == S('zip') and len(x[2][0][2]) == 2:
                    kz = x[2][0][2][0]
                    if kz[0] == 'call' and kz[1] in (S('list'), S('tuple')) and len(kz[2]) == 1:
                        kz = kz[2][0]
                    if kz[0] == 'call' and kz[1] == S('zip') and len(kz[2]) == 2:
                        la, sa_ = kz[2]
                        def elem_of(a):
                            if a[0] == 'bin' and a[1] == 'Mult':
                                for lst, n_ in ((a[2], a[3]), (a[3], a[2])):
                                    if lst[0] == 'list' and len(lst[1]) == 1:
                                        return lst[1][0]
                            if a[0] == 'comp':
                                return a[2]
                            return ('idx', a, S('<i>'))
                        out.append((('tuple', (elem_of(la), elem_of(sa_))), e, ctx))
    seen, uniq = set(), []
    for k, e, c in out:
        if k not in seen:
            seen.add(k)
            uniq.append((k, e, c))
    return uniq


def run(rep, repo, tier):
    for k, v in RULES.items():
        rep.rule(k, v)
    rep.assumptions += ['files follow the documented grammar (behaviour outside it is not decided)', 'tokens are whitespace separated; number tokens are digit strings']
    # R1
    rf = find_reader(repo)
    try:
        from .c13 import helper_resolver
        from .. import lints as _lints
        for rel_, line_, pat_, missing_ in _lints.regex_digit_gaps(repo, repo.rel('solver')):
            rep.fail('C10.R1', rf.where, 'a pattern used on the reader side matches every digit of a number', got='%r (line %d of %s) never matches the digit(s) %s: an entry such as 10 or (20 is cut short or split' % (pat_, line_, rel_, missing_),
                     want='\\d / [0-9]', construct='regular expression without the digit %s' % missing_[0], loc='%s:%d' % (rel_, line_))
        rt = T.ReaderTable(rf, [('', ''), ('(', ''), ('', ')')], resolver=helper_resolver(repo, repo.rel('solver')))
        viol, stats = T.explore(T.reference_writer(), False, rt, check_writer=False)
        rep.extra['states'] = stats['product_states']
        rep.extra['transitions'] = stats['transitions']
        seen = set()
        for kind, msg, tr in viol:
            if (kind, msg) in seen:
                continue
            seen.add((kind, msg))
            rep.fail('C10.R1', rf.where, 'dense ranks: tied entries share a rank, each group or single entry advances it by one', got='%s  [after: %s]' % (msg, fmt_trace(tr)),
                     construct='tokeniser: ' + msg)
        if not viol:
            rep.ok('C10.R1', rf.where, 'tokeniser x reference grammar: %d product states, %d transitions, dense ranks from 1' % (stats['product_states'], stats['transitions']),
                   got={str(k): str(v) for k, v in sorted(rt.table.items(), key=str)})
        # element order preserved: both lists are appended exactly once per token (checked per row by ReaderTable) and returned as (elements, ranks)
        rep.check(rt.ret_order[1] == rt.rank_list, 'C10.R1', rf.where, 'the tokeniser returns (elements, ranks) in that order', got=rt.ret_order, want='(elements, %s)' % rt.rank_list,
                  construct='tokeniser return order')
    except Unknown as u:
        rep.inconclusive('C10.R1', rf.where, 'tokeniser loop is inside the recognised fragment', got=str(u))
    for na in (2, 3):
        for twopl in (True, False):
            try:
                R_ = Reader(repo, na, twopl)
                check_reader(rep, R_)
                check_no_rejection(rep, R_)
            except Unknown as u:
                rep.inconclusive('C10.R2', repo.function('_import_from_file').where, 'file reader is inside the recognised fragment [-na %d%s]' % (na, ' -twopl' if twopl else ''), got=str(u))
            rep.count('specialisations')
    check_cost_readers(rep, repo)
    check_derived(rep, repo)
    check_read_values_kept(rep, repo)
    check_import_pure(rep, repo)
    from ..defined import check_defined
    check_defined(rep, repo, 'C10.R7', [repo.function('import_model', required=False)], 'instance reader')


def check_import_pure(rep, repo, rule='C10.R8'):
    """R8: mutation events of import_model rooted at a module global, and reads of module-level mutable containers"""
    from ..effects import Effects
    f = repo.function('import_model', required=False)
    if f is None:
        rep.inconclusive(rule, 'matchingproblems/solver/fileIO.py', 'import_model exists', got='not found')
        return
    E_ = Effects(repo)
    evs = E_.analyse(f)
    reach = E_.reachable([f])
    bad = [ev for ev in evs if ev.prov[1].startswith('global:') and not ev.prov[1].startswith('global:<')]
    seen = set()
    for ev in bad:
        if ev.loc in seen:
            continue
        seen.add(ev.loc)
        rep.fail(rule, f.where, 'reading a file changes no module-level state', got=ev.describe(), want='a fresh Model per call, nothing remembered between calls',
                 construct='module state %s: %s' % (ev.prov[1], ev.text()), loc=ev.loc)
    # module-level mutable containers consulted by the import slice
    mutable_globals = {}
    for rel, tree in repo.trees.items():
        if not rel.startswith(repo.rel('solver')):
            continue
        for n in tree.body:
            if isinstance(n, ast.Assign) and len(n.targets) == 1 and isinstance(n.targets[0], ast.Name) and isinstance(n.value, (ast.Dict, ast.List, ast.Set)) \
                    and not (n.value.keys if isinstance(n.value, ast.Dict) else n.value.elts):
                mutable_globals[n.targets[0].id] = rel
    reads = []
    for g in reach:
        for x in ast.walk(g.node):
            if isinstance(x, ast.Name) and x.id in mutable_globals and mutable_globals[x.id] == g.relpath and x.id not in g.params:
                reads.append('%s:%d %s' % (g.relpath, x.lineno, x.id))
    rep.check(not reads or bool(bad), rule, f.where, 'the import consults no module-level container that outlives the call', got=reads[:3] or 'none', construct='module-level container consulted: ' + (reads[0].split(' ')[-1] if reads else ''))
    if not bad and not reads:
        rep.ok(rule, f.where, 'mutation summary of import_model over %d functions has no module-level root' % len(reach), got='%d events, all on the new Model' % len(evs))


def check_reader(rep, R):
    cfg = '[-na %d%s]' % (R.na, ' -twopl' if R.twopl else '')
    w = R.f.where
    ns, np_, nl = patom('ns'), patom('np'), patom('nl')
    # ---- header ----
    for attr, want in (('num_students', 0), ('num_projects', 1), ('num_lecturers', 1 if R.na == 2 else 2)):
        st = R.header_stores(attr)
        if len(st) != 1:
            rep.fail('C10.R2', w, '%s is read from the header exactly once %s' % (attr, cfg), got='%d stores' % len(st), construct='%s header stores %s' % (attr, cfg))
            continue
        e, k, (lo, hi, other) = st[0]
        rep.check(k == want, 'C10.R2', w, '%s = header field %d %s' % (attr, want, cfg), got=show(e.value), want='int(first_line[%d])' % want,
                  construct='%s <- %s' % (attr, show(e.value)), loc=e.loc)
        rep.check(lo == {} and hi == {} and not other, 'C10.R2', w, 'the header is line 0 %s' % cfg, got='%s..%s' % (pshow(lo), pshow(hi) if hi is not None else 'inf'),
                  want='0..0', construct='header line interval', loc=e.loc)
    # ---- sections ----
    sections = [('pairs', 'student lines', pconst(1), ns)]
    sections.append(('proj_lower_quotas', 'project lines', padd(ns, pconst(1)), padd(ns, np_)))
    if R.na == 3:
        sections.append(('lec_upper_quotas', 'lecturer lines', padd(padd(ns, np_), pconst(1)), padd(padd(ns, np_), nl)))
    for attr, what, wlo, whi in sections:
        aps = R.appends(attr)
        if len(aps) != 1:
            rep.fail('C10.R2', w, '%s fill %s exactly once per line %s' % (what, attr, cfg), got='%d append sites' % len(aps), want='1', construct='%s append count %s' % (attr, cfg))
            continue
        e, ctx = aps[0]
        lo, hi, other = R.interval(ctx)
        ok = lo == wlo and hi == whi
        rep.check(ok, 'C10.R2', w, '%s are exactly lines %s..%s %s' % (what, pshow(wlo), pshow(whi), cfg), got='%s..%s' % (pshow(lo), pshow(hi) if hi is not None else 'inf'),
                  want='%s..%s' % (pshow(wlo), pshow(whi)), construct='%s interval %s..%s' % (what, pshow(lo), pshow(hi) if hi is not None else 'inf'), loc=e.loc)
        rep.check(not other, 'C10.R2', w, '%s are read whatever the other options %s' % (what, cfg), got=[show(o) for o in other], construct='%s conditional on %s' % (what, [show(o) for o in other]), loc=e.loc)
    # ---- field table ----
    if R.na == 3:
        table = [('proj_lower_quotas', 1), ('proj_upper_quotas', 2), ('lec_lower_quotas', 1), ('lec_targets', 2), ('lec_upper_quotas', 3)]
    else:
        table = [('proj_lower_quotas', 1), ('proj_upper_quotas', 2), ('lec_lower_quotas', 1), ('lec_targets', 2), ('lec_upper_quotas', 2)]
    pl, ph = padd(ns, pconst(1)), padd(ns, np_)
    ll, lh = (padd(padd(ns, np_), pconst(1)), padd(padd(ns, np_), nl)) if R.na == 3 else (pl, ph)
    for attr, k in table:
        aps = R.appends(attr)
        if len(aps) != 1:
            rep.fail('C10.R3', w, '%s is filled from one field %s' % (attr, cfg), got='%d append sites' % len(aps), construct='%s append count %s' % (attr, cfg))
            continue
        e, ctx = aps[0]
        got = R.field(e.value)
        rep.check(got == k, 'C10.R3', w, '%s = field %d of its line %s' % (attr, k, cfg), got=R.nice(e.value), want='int(fields[%d])' % k,
                  construct='%s <- field %s %s' % (attr, got, cfg), loc=e.loc)
        lo, hi, other = R.interval(ctx)
        wl, wh = (pl, ph) if attr.startswith('proj') else (ll, lh)
        rep.check(lo == wl and hi == wh and not other, 'C10.R3', w, '%s is read on its own section %s' % (attr, cfg), got='%s..%s %s' % (pshow(lo), pshow(hi) if hi is not None else 'inf', [show(o) for o in other]),
                  want='%s..%s' % (pshow(wl), pshow(wh)), construct='%s section %s' % (attr, cfg), loc=e.loc)
    # project -> lecturer
    pls = R.lecturer_of_project_appends()
    if len(pls) != 1:
        rep.fail('C10.R3' if R.na == 3 else 'C10.R5', w, 'each project line names its lecturer once %s' % cfg, got='%d sites' % len(pls), construct='project_lecturers sites %s' % cfg)
    else:
        e, ctx = pls[0]
        if R.na == 3:
            rep.check(R.field(e.value) == 3, 'C10.R3', w, 'supervising lecturer = field 3 of the project line %s' % cfg, got=show(e.value),
                      want='int(fields[3])', construct='project lecturer <- %s' % show(e.value), loc=e.loc)
        else:
            okv = own_id_ok(R, e.value, psub(patom('idx'), ns), pl, ph, e)
            if not okv and counts_a_model_list(R, e.value):
                # an id derived from the number of entries read so far, in a form the count invariant above does not cover
                # (the term does not say WHEN the length was taken): not decided here
                rep.inconclusive('C10.R5', w, 'the id a hospital line gets is in closed form %s' % cfg, got=show(e.value), loc=e.loc)
                okv = None
            if okv is not None:
              rep.check(okv, 'C10.R5', w, 'hospital j is offered by its own lecturer j (j = line index - n_s) %s' % cfg, got=show(e.value),
                      want='index - num_students', construct='embedding lecturer id ' + show(e.value), loc=e.loc)
    # ---- preference-list slices and ids ----
    want_slices = {'student': 1, 'second': 3 if R.na == 2 else 4}
    st_calls, sec_calls = R.tokeniser_calls()
    if len(st_calls) != 1:
        rep.fail('C10.R3', w, 'student preference tokens are tokenised once per student line %s' % cfg, got='%d sites' % len(st_calls), construct='student tokeniser sites')
    else:
        e, ctx = st_calls[0]
        k = R.slice_from(e.args[0])
        rep.check(k == 1, 'C10.R3', w, 'a student list = fields[1:] of its line %s' % cfg, got=show(e.args[0]), want='fields[1:]',
                  construct='student list slice %s' % k, loc=e.loc)
    # student id
    pid = [(e, c) for e, c in R.events() if e.kind == 'store' and e.target[0] == 'attr' and e.target[2] == 'studentID' and e.target[1][0] == 'obj']
    if pid:
        e, ctx = pid[0]
        try:
            okv = R.poly(e.value) == patom('idx')
        except Unknown:
            okv = False
        rep.check(okv, 'C10.R2', w, 'student id = line index %s' % cfg, got=show(e.value), want='index', construct='student id ' + show(e.value), loc=e.loc)
    else:
        rep.fail('C10.R2', w, 'a Pair is built for every entry of a student line %s' % cfg, got='no Pair construction', construct='no Pair construction')
    # second side
    if R.twopl:
        if len(sec_calls) != 1:
            rep.fail('C10.R4', w, 'second-side lists are tokenised once per second-side line under -twopl %s' % cfg, got='%d sites' % len(sec_calls), construct='second-side tokeniser sites %s' % cfg)
        else:
            e, ctx = sec_calls[0]
            k = R.slice_from(e.args[0])
            rep.check(k == want_slices['second'], 'C10.R3', w, 'a second-side list = fields[%d:] of its line %s' % (want_slices['second'], cfg),
                      got=show(e.args[0]), want='fields[%d:]' % want_slices['second'], construct='second-side slice %s %s' % (k, cfg), loc=e.loc)
            lo, hi, other = R.interval(ctx)
            wl, wh = (ll, lh)
            rep.check(lo == wl and hi == wh and not other, 'C10.R3', w, 'second-side lists are read on the lecturer/hospital section %s' % cfg,
                      got='%s..%s %s' % (pshow(lo), pshow(hi) if hi is not None else 'inf', [show(o) for o in other]), construct='second-side section %s' % cfg, loc=e.loc)
            # key (lecturer id, student) of the rank dictionary
            keys = rank_keys(R)
            if keys:
                key, x, c = keys[0]
                lid = key[1][0]
                want = psub(patom('idx'), ns) if R.na == 2 else psub(patom('idx'), padd(ns, np_))
                okk = own_id_ok(R, lid, want, wl, wh, x)
                if not okk and counts_a_model_list(R, lid):
                    rep.inconclusive('C10.R2', w, 'the id second-side ranks are keyed by is in closed form %s' % cfg, got=show(lid), loc=x.loc)
                else:
                  rep.check(okk, 'C10.R2', w, 'second-side ranks are keyed by the id of their own line (index - (start - 1)) %s' % cfg, got=show(lid),
                            want=pshow(want), construct='second-side id %s %s' % (show(lid), cfg), loc=x.loc)
            else:
                rep.fail('C10.R4', w, 'second-side ranks are recorded per (lecturer, student) %s' % cfg, got='no keyed store', construct='rank dictionary store %s' % cfg)
    check_token_use(rep, R, cfg)
    # ---- R4: rank_lecturer only under twopl, for every pair ----
    rl = [(e, c) for e, c in iter_effects(R.effs) if e.kind == 'store' and e.target[0] == 'attr' and e.target[2] == 'rank_lecturer']
    if not R.twopl:
        rep.check(not rl, 'C10.R4', w, 'without -twopl no pair receives a lecturer rank (second-side lists are ignored) %s' % cfg,
                  got=['%s under %s' % (e.loc, [show(c.cond)[:60] for c, b in ctx if c.kind == 'if']) for e, ctx in rl], want='no store to rank_lecturer',
                  construct='rank_lecturer set without -twopl', loc=rl[0][0].loc if rl else None)
    else:
        if not rl:
            rep.fail('C10.R4', w, 'with -twopl every pair receives its lecturer rank %s' % cfg, got='rank_lecturer never set', construct='rank_lecturer never set')
        for e, ctx in rl:
            # (a guard "the file has lines at all" is no condition on the instance: an empty file has no pairs)
            def nonempty_file_test(c_, br_):
                t_ = c_.cond
                neg_ = not br_
                while t_[0] == 'not':
                    t_, neg_ = t_[1], not neg_
                return (not neg_) and (is_lines(t_) or (t_[0] == 'call' and t_[1] == S('len') and len(t_[2]) == 1 and is_lines(t_[2][0])))
            # (... and the code after `if <key missing>: raise KeyError(...)` runs for every pair that does not make the reader fail)
            ifs = [c for c, br in ctx if c.kind == 'if' and not nonempty_file_test(c, br) and not getattr(c, 'assumed', False)]
            fors = [c for c, _ in ctx if c.kind == 'for']
            pair = e.target[1]
            okd = all_pairs_loops(fors, R.model) and pair == fors[-1].binder and not ifs
            rep.check(okd, 'C10.R4', w, 'rank_lecturer is set for every pair of every student, unconditionally under -twopl %s' % cfg,
                      got='guards=%s loops=%s' % ([show(c.cond)[:60] for c in ifs], [show(c.binder[3])[:40] for c in fors]), construct='rank_lecturer coverage %s' % cfg, loc=e.loc)
            v = idnorm(R.repo, e.value)
            if v[0] == 'idx' and v[1] in (('dict', ()), CALL(S('dict'), [])):
                rep.fail('C10.R4', w, 'the ranks looked up were recorded: every second-side line adds its (lecturer, student) ranks to the table %s' % cfg, got='the table looked up is the empty dictionary',
                         want='table.update(ranks of the line)', construct='rank table never filled %s' % cfg, loc=e.loc)
                continue
            okk = v[0] == 'idx' and v[2] == ('tuple', (A(pair, 'lecturerID'), A(pair, 'studentID')))
            if not okk and v[0] == 'idx' and v[2][0] == 'tuple' and len(v[2][1]) == 2 and v[2][1][1] == A(pair, 'studentID'):
                # the lecturer id read back as the value stored for this pair (R6 decides that value)
                from ..canon import replace
                for e2, _ in iter_effects(R.effs):
                    if e2.kind == 'store' and e2.target[0] == 'attr' and e2.target[2] == 'lecturerID' and e2.target[1][0] == 'bvar' \
                            and replace(idnorm(R.repo, e2.value), e2.target[1], pair) == v[2][1][0]:
                        okk = True
            rep.check(okk, 'C10.R4', w, 'the rank looked up is that of (own lecturer, own student) %s' % cfg, got=show(v)[-80:], want='ranks[(pair.lecturerID, pair.studentID)]',
                      construct='rank key ' + (show(v[2]).replace(show(pair), 'pair') if v[0] == 'idx' else show(v)[:60]), loc=e.loc)
    # ---- R6: the project -> lecturer table is kept on the model (the project listing prints it) ----
    pl_stores = [e for e, c in R.all_events() if e.kind == 'store' and e.target == A(R.model, 'proj_lecturers') and e.value != ('list', ())]
    pl_apps = R.appends('proj_lecturers')
    rep.check(bool(pl_stores) or bool(pl_apps), 'C10.R6', w, 'the lecturer of every project is kept on the model (model.proj_lecturers) %s' % cfg, got='model.proj_lecturers is never filled',
              want='model.proj_lecturers = <lecturer of each project line>', construct='proj_lecturers never filled')
    # ---- R6: lecturer of a pair ----
    ls = [(e, c) for e, c in iter_effects(R.effs) if e.kind == 'store' and e.target[0] == 'attr' and e.target[2] == 'lecturerID']
    if not ls:
        rep.fail('C10.R6', w, 'every pair is given its lecturer %s' % cfg, got='lecturerID never set', construct='lecturerID never set')
    for e, ctx in ls:
        pair = e.target[1]
        fors = [c for c, _ in ctx if c.kind == 'for']
        ifs = [c for c, br in ctx if c.kind == 'if' and not nonempty_file_guard(c, br)]
        okd = all_pairs_loops(fors, R.model) and pair == fors[-1].binder and not ifs
        v = idnorm(R.repo, e.value)
        okv = v[0] == 'idx' and v[2] in (A(pair, 'project_index'), BIN('Sub', A(pair, 'projectID'), C(1)))
        rep.check(okd and okv, 'C10.R6', w, "a pair's lecturer is the lecturer of its own project, for every pair %s" % cfg, got=show(v)[-60:].replace(show(pair), 'pair'),
                  want='project_lecturers[pair.project_index]', construct='pair lecturer %s' % (show(v[2]).replace(show(pair), 'pair') if v[0] == 'idx' else '?'), loc=e.loc)


def check_token_use(rep, R, cfg, rule='C10.R3'):
    """R3: what the tokeniser returns is used position by position: entry k of the element list gets entry k of the rank list
    (both from the same tokeniser call) - for the pairs of a student line and for the (lecturer, student) ranks"""
    w = R.f.where
    st_calls, sec_calls = R.tokeniser_calls()
    rets = [e.ret for e, _ in st_calls + sec_calls if isinstance(e.ret, tuple) and e.ret and e.ret[0] == 'tuple' and len(e.ret[1]) == 2]
    if not rets:
        return
    def which(t):
        """t == T0[K] or T1[K] of some tokeniser call -> (call number, 0|1, K)"""
        if t[0] == 'idx':
            for n_, r_ in enumerate(rets):
                for side in (0, 1):
                    if t[1] == r_[1][side]:
                        return n_, side, t[2]
        if t[0] == 'bvar':
            # an element of one of the two lists, visited in order: its position is its index
            for n_, r_ in enumerate(rets):
                for side in (0, 1):
                    if t[3] == r_[1][side]:
                        return n_, side, ('indexof', t)
        return None
    # pairs of a student line
    objs = {}
    for e, ctx in R.events():
        if e.kind == 'store' and e.target[0] == 'attr' and e.target[1][0] == 'obj' and e.target[2] in ('projectID', 'rank_student'):
            objs.setdefault(e.target[1], {})[e.target[2]] = e
    for obj, d in objs.items():
        if set(d) != {'projectID', 'rank_student'}:
            continue
        a, b = which(d['projectID'].value), which(d['rank_student'].value)
        ok = a is not None and b is not None and a[0] == b[0] and a[1] == 0 and b[1] == 1 and a[2] == b[2]
        rep.check(ok, rule, w, 'a pair gets entry k of the tokenised projects and entry k of the tokenised ranks of its own line %s' % cfg,
                  got='project %s ; rank %s' % (R.nice(d['projectID'].value)[-70:], R.nice(d['rank_student'].value)[-70:]), want='projects[k], ranks[k] of one tokeniser call',
                  construct='pair built from %s / %s' % ('projects[k]' if a and a[1] == 0 else 'not the tokenised project', 'ranks[k]' if b and b[1] == 1 else 'not the tokenised rank'),
                  loc=d['rank_student'].loc)
        if ok and a[2][0] == 'bvar' and a[2][3][0] == 'call' and a[2][3][1] == S('range'):
            # ... for EVERY k: the positions run over the whole token list
            ra = a[2][3][2]
            lens = [CALL(S('len'), [rets[a[0]][1][0]]), CALL(S('len'), [rets[a[0]][1][1]])]
            full = (len(ra) == 1 and ra[0] in lens) or (len(ra) == 2 and ra[0] == C(0) and ra[1] in lens)
            rep.check(full, rule, w, 'every token of the line becomes a pair %s' % cfg, got='k in range(%s)' % ', '.join(R.nice(x)[-50:] for x in ra), want='range(len(projects))',
                      construct='pairs built for range(%s)' % ', '.join(show(x)[-40:] for x in ra), loc=d['rank_student'].loc)
    # second-side ranks
    if R.twopl:
        for e, ctx in R.events():
            pairs_kv = []
            if e.kind == 'acc' and e.op == 'setidx' and e.index is not None and e.index[0] == 'tuple' and len(e.index[1]) == 2:
                pairs_kv.append((e.index[1][1], e.value))
            for t in [v for k_, v in e.__dict__.items() if isinstance(v, tuple) and v and isinstance(v[0], str)]:
                for x in walk(t):
                    if x[0] == 'dictcomp' and x[2][0] == 'tuple' and len(x[2][1]) == 2:
                        pairs_kv.append((x[2][1][1], x[3]))
            for stud, val in pairs_kv[:1]:
                a, b = which(stud), which(val)
                ok = a is not None and b is not None and a[0] == b[0] and a[1] == 0 and b[1] == 1 and a[2] == b[2]
                rep.check(ok, rule, w, 'the rank recorded for (lecturer, student k) is entry k of the tokenised ranks of the same line %s' % cfg,
                          got='student %s ; rank %s' % (R.nice(stud)[-70:], R.nice(val)[-70:]), want='students[k], ranks[k] of one tokeniser call',
                          construct='second-side rank from %s' % ('ranks[k]' if b and b[1] == 1 and a and a[2] == b[2] else 'something else than the tokenised rank of that entry'), loc=e.loc)
                return


def all_pairs_loops(fors, model):
    """the enclosing loops visit every pair of every student: rows of model.pairs x row, or chain.from_iterable(model.pairs)"""
    from ..shapes import all_pairs_chain
    return bool(fors) and all_pairs_chain(tuple((c.binder, TRUE) for c in fors), model) is not None


_id_facts = {}


def idnorm(repo, t):
    """ids and indices of a Pair: <x>_index = <x>ID - 1 is read off Pair's own constructor / setters (every store of an
    *_index attribute in class Pair); then  p.<x>_index + 1  ->  p.<x>ID  and  p.<x>ID - 1  ->  p.<x>_index."""
    key = repo.root
    if key not in _id_facts:
        facts = {}
        for name, f in repo.classes.get('Pair', {}).items():
            for n in ast.walk(f.node):
                if isinstance(n, ast.Assign) and len(n.targets) == 1 and isinstance(n.targets[0], ast.Attribute) and isinstance(n.targets[0].value, ast.Name) \
                        and n.targets[0].value.id == 'self' and n.targets[0].attr.endswith('_index'):
                    v = n.value
                    if isinstance(v, ast.BinOp) and isinstance(v.op, ast.Sub) and isinstance(v.right, ast.Constant) and v.right.value == 1:
                        src = v.left
                        # self.studentID - 1  or  <param> - 1 where self.<x>ID = <param> is stored in the same function
                        if isinstance(src, ast.Attribute) and isinstance(src.value, ast.Name) and src.value.id == 'self':
                            facts[n.targets[0].attr] = src.attr
                        elif isinstance(src, ast.Name):
                            for m in ast.walk(f.node):
                                if isinstance(m, ast.Assign) and len(m.targets) == 1 and isinstance(m.targets[0], ast.Attribute) and isinstance(m.value, ast.Name) and m.value.id == src.id \
                                        and isinstance(m.targets[0].value, ast.Name) and m.targets[0].value.id == 'self' and m.targets[0].attr.endswith('ID'):
                                    facts[n.targets[0].attr] = m.targets[0].attr
        _id_facts[key] = facts
    facts = _id_facts[key]
    inv = {v: k for k, v in facts.items()}
    def f(x):
        if x[0] == 'bin' and x[1] == 'Add' and x[3] == C(1) and x[2][0] == 'attr' and x[2][2] in facts:
            return A(x[2][1], facts[x[2][2]])
        if x[0] == 'bin' and x[1] == 'Add' and x[2] == C(1) and x[3][0] == 'attr' and x[3][2] in facts:
            return A(x[3][1], facts[x[3][2]])
        if x[0] == 'bin' and x[1] == 'Sub' and x[3] == C(1) and x[2][0] == 'attr' and x[2][2] in inv:
            return A(x[2][1], inv[x[2][2]])
        return None
    return subst(t, f)


def stab_gated_functions(repo):
    """Functions of the solver package that are reachable ONLY through calls guarded by the stability option
    (-stab requires -twopl, C16.R4, so every pair has a rank_lecturer there)."""
    funcs = [f for f in repo.all_funcs() if f.relpath.startswith(repo.rel('solver'))]
    byname = {}
    for f in funcs:
        byname.setdefault(f.name, []).append(f)
    sites = {}      # callee name -> list of (caller func, guarded?)
    for f in funcs:
        parents = {}
        for p_ in ast.walk(f.node):
            for ch in ast.iter_child_nodes(p_):
                parents[ch] = p_
        for x in ast.walk(f.node):
            if isinstance(x, ast.Call):
                nm = x.func.attr if isinstance(x.func, ast.Attribute) else (x.func.id if isinstance(x.func, ast.Name) else None)
                if nm not in byname:
                    continue
                guarded = False
                cur = x
                while cur in parents:
                    par = parents[cur]
                    if isinstance(par, (ast.If, ast.IfExp)) and cur is not par.test:
                        in_body = (cur in par.body) if isinstance(par, ast.If) else (cur is par.body)
                        t = ast.unparse(par.test)
                        if in_body and ('STAB' in t or 'stable_correctness' in t or 'stability_requested' in t):
                            guarded = True
                    cur = par
                sites.setdefault(nm, []).append((f, guarded))
    gated = set()
    changed = True
    while changed:
        changed = False
        for nm, ss in sites.items():
            if nm in gated:
                continue
            if ss and all(g or caller.name in gated for caller, g in ss):
                gated.add(nm)
                changed = True
    return gated


def check_no_rejection(rep, R, rule='C10.R7'):
    """A `raise` guarded by the emptiness of a preference-token list rejects files of the documented grammar."""
    cfg = '[-na %d%s]' % (R.na, ' -twopl' if R.twopl else '')
    n = 0
    for e, ctx in iter_effects(R.effs):
        if e.kind != 'raise':
            continue
        n += 1
        guards = [(c.cond if br else NOT(c.cond)) for c, br in ctx if c.kind == 'if']
        for g in guards:
            for part in (g[2] if (g[0] == 'bool' and g[1] == 'and') else [g]):
                empties = []
                p = part
                if p[0] == 'not':
                    empties.append(p[1])
                if p[0] == 'cmp' and p[1] in ('Eq', 'Lt', 'LtE') and p[2][0] == 'call' and p[2][1] == S('len') and p[3] in (C(0), C(1)):
                    empties.append(p[2][2][0])
                for x in empties:
                    if R.slice_from(x) is not None or contains(x, lambda y: y[0] == 'slice' and R.is_fields(y[1])):
                        rep.fail(rule, e.where, 'a line whose preference list is empty is accepted %s' % cfg, got='raises %s when %s' % (show(e.value)[:60], show(part)[:80]),
                                 want='empty lists are legal (nobody ranks that agent)', construct='reader raises on an empty preference list', loc=e.loc)
                        return
    rep.ok(rule, R.f.where, 'no raise guarded by an empty preference list %s' % cfg, got='%d raise statements in the reader slice' % n)


def check_cost_readers(rep, repo):
    """Every read of .rank_lecturer outside stability-gated code is guarded by hasattr(<same object>, 'rank_lecturer')."""
    gated = stab_gated_functions(repo)
    rep.extra['stability_gated_functions'] = sorted(gated)
    n = 0
    # only code that can run: functions reachable from the public Solver API (a helper nobody calls any more is not a reader)
    from ..effects import Effects
    E_ = Effects(repo)
    live = set(E_.reachable([m for nm, m in repo.classes.get('Solver', {}).items() if not nm.startswith('_') or nm == '__init__']))
    for f in repo.all_funcs():
        if not f.relpath.startswith(repo.rel('solver')):
            continue
        if live and f not in live:
            continue
        parents = {}
        for p in ast.walk(f.node):
            for ch in ast.iter_child_nodes(p):
                parents[ch] = p
        for x in ast.walk(f.node):
            if isinstance(x, ast.Attribute) and x.attr == 'rank_lecturer' and isinstance(x.ctx, ast.Load):
                n += 1
                if f.name in gated:
                    continue
                base = ast.unparse(x.value)
                def is_guard(t):
                    for y in ast.walk(t):
                        if isinstance(y, ast.Call) and isinstance(y.func, ast.Name) and y.func.id == 'hasattr' and len(y.args) == 2 \
                                and ast.unparse(y.args[0]) == base and isinstance(y.args[1], ast.Constant) and y.args[1].value == 'rank_lecturer':
                            return True
                    return False
                guarded = False
                cur = x
                while cur in parents:
                    par = parents[cur]
                    if isinstance(par, (ast.If, ast.IfExp)) and cur is not par.test:
                        in_body = (cur in par.body) if isinstance(par, ast.If) else (cur is par.body)
                        if in_body and is_guard(par.test):
                            guarded = True
                    if isinstance(par, ast.BoolOp) and isinstance(par.op, ast.And):
                        k = par.values.index(cur) if cur in par.values else -1
                        if any(is_guard(v) for v in par.values[:max(k, 0)]):
                            guarded = True
                    if isinstance(par, (ast.ListComp, ast.GeneratorExp, ast.SetComp, ast.DictComp)):
                        for gen in par.generators:
                            if any(is_guard(c) for c in gen.ifs):
                                guarded = True
                    cur = par
                rep.check(guarded, 'C10.R4', f.where, 'cost code reads rank_lecturer only where the pair has one (one-sided runs have no lecturer cost)', got=ast.unparse(x),
                          want="guarded by hasattr(%s, 'rank_lecturer'), or reachable only under -stab" % base, construct='unguarded rank_lecturer read in %s' % f.qualname,
                          loc='%s:%d' % (f.relpath, x.lineno))
    rep.count('rank_lecturer_reads', n)


def check_derived(rep, repo):
    from .c01 import check_grouping
    from .c03 import check_rank_lists
    check_grouping(rep, repo, rule='C10.R6')
    check_rank_lists(rep, repo, rule='C10.R6')
    # Pair indices
    init = repo.method('Pair', '__init__')
    sl = repo.method('Pair', 'set_lecturer')
    want = {'student_index': 'studentID', 'project_index': 'projectID', 'lecturer_index': 'lecturerID'}
    found = {}
    for f in (init, sl):
        for n in ast.walk(f.node):
            if isinstance(n, ast.Assign) and len(n.targets) == 1 and isinstance(n.targets[0], ast.Attribute) and n.targets[0].attr in want:
                found[n.targets[0].attr] = ast.unparse(n.value)
    for idx, idn in want.items():
        got = found.get(idx, 'missing')
        ok = got.replace(' ', '') in ('self.%s-1' % idn, '%s-1' % idn)
        rep.check(ok, 'C10.R6', init.where, '%s = %s - 1' % (idx, idn), got=got, want='self.%s - 1' % idn, construct='%s = %s' % (idx, got))
    # import_model derives the three lists after reading
    im = repo.function('import_model', repo.rel('solver', 'fileIO.py'))
    need = ['set_project_lists', 'set_lecturer_lists', 'set_rank_lists']

    def calls_of(node, depth=0):
        out = []
        for n in ast.walk(node):
            if isinstance(n, ast.Call):
                nm = n.func.attr if isinstance(n.func, ast.Attribute) else getattr(n.func, 'id', '')
                out.append(nm)
                if nm not in need and depth < 3:
                    # a wrapper (e.g. one method that derives all three lists): look through it
                    targets = [ms[nm] for ms in repo.classes.values() if nm in ms] if isinstance(n.func, ast.Attribute) else list(repo.funcs_by_name.get(nm, []))
                    if len(targets) == 1 and targets[0].node is not node:
                        out.extend(x for x in calls_of(targets[0].node, depth + 1) if x in need)
        return out
    order = calls_of(im.node)
    rep.check(all(x in order for x in need) and repo.actual_function('_import_from_file') in order, 'C10.R6', im.where, 'import_model reads the file and derives project, lecturer and rank lists', got=order,
              want=['_import_from_file'] + need, construct='import_model steps')


FILE_ATTRS = {'proj_lower_quotas', 'proj_upper_quotas', 'proj_lecturers', 'lec_lower_quotas', 'lec_targets', 'lec_upper_quotas', 'pairs',
              'num_students', 'num_projects', 'num_lecturers'}


def check_read_values_kept(rep, repo, rule='C10.R6'):
    """What the reader stored is what the solver sees: after _import_from_file nothing that import_model calls (derivation
    of the grouped lists, validations, ...) writes into the quota vectors, the lecturer assignment, the pair table or the
    counts.  Mutation summaries (E8) of every function import_model calls besides the reader itself."""
    from ..effects import Effects
    im = repo.function('import_model', repo.rel('solver', 'fileIO.py'))
    reader = repo.actual_function('_import_from_file')
    E = Effects(repo)
    callees = []
    for n in ast.walk(im.node):
        if isinstance(n, ast.Call):
            nm = n.func.attr if isinstance(n.func, ast.Attribute) else getattr(n.func, 'id', '')
            if nm == reader:
                continue
            targets = [ms[nm] for ms in repo.classes.values() if nm in ms] if isinstance(n.func, ast.Attribute) else list(repo.funcs_by_name.get(nm, []))
            callees += [t for t in targets if t not in callees]
    bad = []
    nev = 0
    for g in callees:
        try:
            evs = E.analyse(g)
        except Exception as u:
            rep.inconclusive(rule, g.where, 'the effects of %s are inside the summarised fragment' % g.qualname, got=str(u)[:120])
            return
        for ev in evs:
            nev += 1
            names = [x for x in ev.prov[2] if x != '[]']
            hit = (names[0] if names else ev.attr) if ev.prov[0] == 'path' and ev.prov[1] in ('self', 'param:model', 'model') or (ev.prov[0] == 'path' and ev.prov[1].startswith('param')) else None
            if hit in FILE_ATTRS:
                bad.append((g, ev, hit))
    for stmt in im.node.body:
        # ... nor does import_model itself, after the reader returned
        for n in ast.walk(stmt):
            if isinstance(n, ast.Attribute) and n.attr in FILE_ATTRS and isinstance(n.ctx, ast.Store):
                bad.append((im, None, n.attr))
            if isinstance(n, ast.Subscript) and isinstance(n.ctx, ast.Store) and isinstance(n.value, ast.Attribute) and n.value.attr in FILE_ATTRS:
                bad.append((im, None, n.value.attr))
    rep.count('post_read_mutation_events', nev)
    if bad:
        g, ev, hit = bad[0]
        rep.fail(rule, g.where, 'the values read from the file are not modified before the solver sees them', got='%s writes model.%s%s' % (g.qualname, hit, (' (%s at %s)' % (ev.kind, ev.loc)) if ev else ''),
                 want='only the reader fills ' + ', '.join(sorted(FILE_ATTRS)), construct='%s modifies %s after the file was read' % (g.qualname, hit), loc=ev.loc if ev else None)
    else:
        rep.ok(rule, im.where, 'none of the %d mutation events of the %d functions import_model calls after the reader touches the quota vectors, lecturer assignment, pair table or counts' % (nev, len(callees)),
               got='no write')
