"""C16 -- criteria run in position order; invalid solver option sets are refused (DESIGN.md section 5, C16)."""
import ast

from ..terms import *
from ..absint import Interp, iter_effects, collect_acc
from ..loader import AnalysisError
from ..optparse_facts import parser_facts
from .. import lp, lpfacts, spec

RULES = {
    'C16.R1': 'ordering helper = scatter at (position - 1) into one slot per criterion + ascending compaction of non-sentinel slots (=> sorted by position, gaps allowed)',
    'C16.R2': 'range guard  position < 1 or position > #criteria -> parser.error  is evaluated for every present criterion before the scatter',
    'C16.R3': 'duplicate guard: kept-count != present-count -> parser.error, after the scatter, on every path',
    'C16.R4': 'stab and not twopl -> parser.error on every path through parse()',
    'C16.R5': 'in Solver.__init__ the option parse precedes import_model; nothing is solved in __init__',
    'C16.R6': 'extras retention: list-valued flags give (criterion, arguments[1:]), scalar flags (criterion, None); consumers unpack in that order',
    'C16.R7': "each criterion method appends its '- optimisation:' line before its first solve (printed lines = executed prefix, in order)",
    'C16.R9': 'only the prefix up to the first non-Optimal solve is run and reported: solve/check typestate (shared with C14.R1) on sequences of criteria',
    'C16.R8': 'criterion tables agree: enum members <-> tuple rows <-> argparse dests (documented flags) <-> dispatch branches',
}


def int_interval_violation(cond, pos):
    """cond  <=>  pos < lo or pos > hi  (integers).  Returns (lo, hi) or None."""
    def neg(c):
        if c[0] == 'cmp':
            n = {'Lt': 'GtE', 'LtE': 'Gt', 'Gt': 'LtE', 'GtE': 'Lt'}.get(c[1])
            return CMP(n, c[2], c[3]) if n else None
        return None
    if cond[0] == 'not' and cond[1][0] == 'bool' and cond[1][1] == 'and':
        parts = [neg(x) for x in cond[1][2]]
        if any(p is None for p in parts):
            return None
        cond = OR(*parts)
    if not (cond[0] == 'bool' and cond[1] == 'or' and len(cond[2]) == 2):
        return None
    lo = hi = None
    for c in cond[2]:
        if c[0] != 'cmp':
            return None
        op, a, b = c[1], c[2], c[3]
        if b == pos and a != pos:
            op = {'Lt': 'Gt', 'LtE': 'GtE', 'Gt': 'Lt', 'GtE': 'LtE'}.get(op)
            a, b = b, a
        if a != pos or not (b[0] == 'const' and isinstance(b[1], int)):
            return None
        if op == 'Lt': lo = b[1]
        elif op == 'LtE': lo = b[1] + 1
        elif op == 'Gt': hi = b[1]
        elif op == 'GtE': hi = b[1] - 1
        else: return None
    if lo is None or hi is None:
        return None
    return lo, hi


def kind_subst(pf):
    """Replace isinstance(args.X, list) by the constant implied by the argparse table (nargs => list)."""
    def f(t):
        if t[0] == 'call' and t[1] == S('isinstance') and len(t[2]) == 2 and t[2][1] == S('list'):
            a = t[2][0]
            if a[0] == 'attr' and a[1] == S('args') and a[2] in pf.by_dest:
                return C(pf.by_dest[a[2]].nargs is not None)
        return None
    return lambda term: simp(subst(term, f))


def stability_requires_twopl(rep, repo, rule):
    pf = parser_facts(repo)
    where = repo.method('Options_parser', 'parse').where
    hits = []
    for e, ctx in pf.errors:
        gs = pf.guards_of(ctx)
        flat = []
        for g in gs:
            flat += list(g[2]) if (g[0] == 'bool' and g[1] == 'and') else [g]
        if A(S('args'), 'stab') in flat and NOT(A(S('args'), 'twopl')) in flat:
            hits.append((e, flat))
    if not hits:
        rep.fail(rule, where, 'parse() refuses -stab without -twopl', got='no parser.error guarded by (stab and not twopl)',
                 want='if stab and not twopl: parser.error(..)', construct='stab-twopl guard absent')
        return
    e, flat = hits[0]
    extra = [g for g in flat if g not in (A(S('args'), 'stab'), NOT(A(S('args'), 'twopl')))]
    rep.check(not extra, rule, e.where, 'the -stab/-twopl refusal is reached on every path through parse()', got=[show(g) for g in extra],
              want='guard exactly (stab and not twopl)', construct='stab-twopl guard weakened: ' + ' & '.join(show(g) for g in extra), loc=e.loc)


def check_tables(rep, repo, rule='C16.R8'):
    pf = parser_facts(repo)
    members = [m for m, _ in repo.enum_members(repo.rel('solver', 'enums.py'), 'Optimisation_options')]
    N = len(members)
    # ---- R8 tables ------------------------------------------------------------------------------
    tup = repo.method('Options_parser', '_get_optimisation_tuples')
    it = Interp(repo)
    _, rv = it.run(tup, {[p_ for p_ in tup.params if p_ != 'self'][0]: S('args')})
    rows = []
    if rv[0] == 'list':
        for el in rv[1]:
            if el[0] == 'tuple' and len(el[1]) == 2 and el[1][0][0] == 'attr' and el[1][0][1] == S('args') and is_enum_member(el[1][1]):
                rows.append((el[1][0][2], el[1][1][2]))
    rep.check(len(rows) == N and len(rv[1]) == N if rv[0] == 'list' else False, rule, tup.where,
              'one (args.<dest>, member) row per criterion', got=rows, want='%d rows' % N, construct='tuple rows')
    rep.check(sorted(m for _, m in rows) == sorted(members), rule, tup.where, 'tuple rows cover every enum member exactly once',
              got=sorted(m for _, m in rows), want=sorted(members), construct='tuple members')
    for dest, m in rows:
        sp = spec.CRITERIA.get(m)
        a = pf.by_dest.get(dest)
        if sp is None:
            rep.inconclusive(rule, tup.where, 'criterion %s is documented' % m, got='not in the documented criterion table')
            continue
        ok = a is not None and sp['dest'] == dest and sp['flag'] in a.flags and a.type == 'int'
        rep.check(ok, rule, tup.where, 'row %s pairs the documented flag %s (int) with its criterion' % (m, sp['flag']),
                  got=repr(a), want='dest=%s flag=%s type=int' % (sp['dest'], sp['flag']), construct='row %s <- %s' % (m, dest))
        if a is not None:
            want_list = sp['nextras'] > 0
            rep.check((a.nargs is not None) == want_list, rule, tup.where,
                      'flag %s takes %s' % (sp['flag'], 'position plus optional extras' if want_list else 'a single position'),
                      got='nargs=%r' % a.nargs, want="nargs='+'" if want_list else 'no nargs', construct='nargs of %s' % dest)
            rep.check(a.default is None and a.action == 'store', rule, tup.where, 'absent flag %s is delivered as None' % sp['flag'],
                      got='action=%s default=%r' % (a.action, a.default), want='store / None', construct='default of %s' % dest)

    return rows


def run(rep, repo, tier):
    for k, v in RULES.items():
        rep.rule(k, v)
    from ..defined import check_defined
    check_defined(rep, repo, 'C16.R5', [repo.method('Solver', '__init__'), repo.method('Solver', 'solve'), repo.method('Solver', 'get_results_short'), repo.method('Solver', 'get_results_long')], 'solver path')
    rep.assumptions += ['A5 argparse contracts (store default None, nargs=+ yields a list, parser.error does not return)']
    pf = parser_facts(repo)
    ks = kind_subst(pf)
    members = [m for m, _ in repo.enum_members(repo.rel('solver', 'enums.py'), 'Optimisation_options')]
    N = len(members)
    parse_where = pf.parse.where

    rows = check_tables(rep, repo, 'C16.R8')

    # ---- R2 range guards per criterion (unrolled over the literal tuple list) ----------------------
    helper = repo.method('Options_parser', '_get_ordered_optimisations')
    helper_calls = [(e, c) for e, c in iter_effects(pf.effs) if e.kind == 'call' and e.target is helper]
    order = {id(e): i for i, (e, _) in enumerate(iter_effects(pf.effs))}
    if not helper_calls:
        rep.fail('C16.R1', parse_where, 'the ordering helper is called from parse()', got='no call', construct='helper not called')
    hpos = order[id(helper_calls[0][0])] if helper_calls else 10 ** 9
    # semantic table: with only this criterion present at position v, is a parser.error reached before the scatter?
    from ..termeval import PyEval, NOATOM, Raises, reached
    bool_dests = {d for d, a in pf.by_dest.items() if a.action == 'store_true'}
    early = [(e, ctx, order[id(e)]) for e, ctx in pf.errors if order[id(e)] < hpos]
    for dest, m in rows:
        is_list = bool(pf.by_dest.get(dest) and pf.by_dest[dest].nargs is not None)
        verdicts = {}
        problem = None
        for v in (0, 1, N, N + 1):
            for extra in ([()] if not is_list else [(), (3,)]):
                val = ([v] + list(extra)) if is_list else v
                def atom(t, val=val):
                    if t[0] == 'attr' and t[1] == S('args'):
                        if t[2] == dest:
                            return val
                        if t[2] in bool_dests:
                            return False
                        return None
                    return NOATOM
                hit = None
                for e, ctx, pos_ in early:
                    pe = PyEval(atom)
                    try:
                        ok = reached(pe, ctx)
                    except Raises as r:
                        problem = ('raises', str(r), e)
                        ok = False
                    except Unknown as u:
                        problem = ('unknown', str(u), e)
                        ok = False
                    if ok:
                        hit = e
                        break
                verdicts[(v, extra)] = hit
        if problem and problem[0] == 'unknown':
            rep.inconclusive('C16.R2', parse_where, 'the guards of the parser.error calls before the scatter can be evaluated for %s' % m, got=problem[1], loc=problem[2].loc)
            continue
        bad_accept = [k for k, h in verdicts.items() if k[0] in (0, N + 1) and h is None]
        bad_reject = [k for k, h in verdicts.items() if k[0] in (1, N) and h is not None]
        if bad_accept:
            rep.fail('C16.R2', parse_where, 'position of %s is range-checked before the scatter' % m, got='position %d is not refused before the ordering helper runs' % bad_accept[0][0],
                     want='%s < 1 or %s > %d -> parser.error' % (dest, dest, N), construct='range guard of %s absent' % dest)
        elif bad_reject:
            e = verdicts[bad_reject[0]]
            rep.fail('C16.R2', e.where, 'accepted positions of %s are exactly 1..%d' % (m, N), got='position %d is refused' % bad_reject[0][0], want='1..%d accepted' % N,
                     construct='range of %s refuses %d' % (dest, bad_reject[0][0]), loc=e.loc)
        else:
            rep.ok('C16.R2', parse_where, 'positions 0 and %d of %s are refused before the scatter, 1 and %d are not (with and without extras)' % (N + 1, m, N), got='table of %d valuations' % len(verdicts))

    # ---- R3 duplicate guard: semantic table over pairs of criteria --------------------------------------
    def refused(vals):
        """first parser.error of parse() reached under this argument valuation (None = accepted)"""
        def atom(t):
            if t[0] == 'attr' and t[1] == S('args'):
                if t[2] in vals:
                    return vals[t[2]]
                if t[2] in bool_dests:
                    return False
                return None
            return NOATOM
        for e, ctx in sorted(pf.errors, key=lambda ec: order[id(ec[0])]):
            pe = PyEval(atom)
            if reached(pe, ctx):
                return e
        return None
    def is_list_dest(dest):
        return bool(pf.by_dest.get(dest) and pf.by_dest[dest].nargs is not None)
    def val_of(dest, v, extras=()):
        return [v] + list(extras) if is_list_dest(dest) else v
    pairs_ = [(rows[a][0], rows[b][0]) for a, b in ((0, 1), (1, 2), (2, 4), (6, 8), (0, 8)) if a < len(rows) and b < len(rows)]
    # every criterion that takes extras is also paired with a neighbour: a position is shared whatever follows it
    dests_ = [d for d, _ in rows]
    for k_, d in enumerate(dests_):
        if is_list_dest(d) and len(dests_) > 1:
            other = dests_[(k_ + 1) % len(dests_)]
            if (d, other) not in pairs_ and (other, d) not in pairs_:
                pairs_.append((d, other))
    r3_bad, r3_n = [], 0
    try:
        for d1, d2 in pairs_:
            shapes_ = [((), ())]
            if is_list_dest(d1):
                shapes_.append(((3,), ()))
            if is_list_dest(d2):
                shapes_.append(((), (3,)))
            if is_list_dest(d1) and is_list_dest(d2):
                shapes_.append(((3,), (5,)))
            for x1, x2 in shapes_:
                for p1, p2, want_refused in ((1, 1, True), (N, N, True), (3, 3, True), (1, 2, False), (2, 1, False), (1, N, False), (N, 1, False), (4, 7, False)):
                    r3_n += 1
                    e = refused({d1: val_of(d1, p1, x1), d2: val_of(d2, p2, x2)})
                    if (e is not None) != want_refused:
                        r3_bad.append((d1, p1, d2, p2, e))
        if r3_bad:
            d1, p1, d2, p2, e = r3_bad[0]
            if e is None:
                rep.fail('C16.R3', parse_where, 'two criteria sharing a position are refused', got='-%s %d -%s %d is accepted' % (d1, p1, d2, p2), want='parser.error',
                         construct='duplicate guard absent')
            else:
                rep.fail('C16.R3', e.where, 'criteria at distinct positions (gaps allowed) are accepted', got='-%s %d -%s %d is refused' % (d1, p1, d2, p2), want='accepted',
                         construct='distinct positions refused', loc=e.loc)
        else:
            rep.ok('C16.R3', parse_where, 'shared positions are refused, distinct positions (any order, with gaps) accepted', got='table of %d two-criterion valuations' % r3_n)
    except Raises as r:
        rep.fail('C16.R3', parse_where, 'option checking never fails with an exception other than the parser error', got=str(r), construct='parse raises')
    except Unknown as u:
        rep.inconclusive('C16.R3', parse_where, 'the guards of the parser.error calls can be evaluated on two-criterion valuations', got=str(u))
    check_helper(rep, repo, helper, N)
    check_parse_keeps_pairs(rep, repo, 'C16.R6')
    check_extras_isolation(rep, repo, tier)
    check_extras_unfiltered(rep, repo, tier)
    check_extras_not_consumed(rep, repo)

    # ---- R4 ----------------------------------------------------------------------------------------------
    stability_requires_twopl(rep, repo, 'C16.R4')
    # every refusal must be reachable on every path: no refusal under an unrelated option (e.g. only when not -bf)
    # (covered per guard above: extra conjuncts are reported)

    # ---- R5 ----------------------------------------------------------------------------------------------
    init = repo.method('Solver', '__init__')
    it = Interp(repo)
    it.aliases.append(lambda t: S('PARSED') if (t[0] == 'call' and t[1][0] == 'attr' and t[1][2] == 'parse') else None)
    calls = []
    src_order = []
    for n in ast.walk(init.node):
        if isinstance(n, ast.Call):
            f = n.func
            nm = f.attr if isinstance(f, ast.Attribute) else (f.id if isinstance(f, ast.Name) else None)
            src_order.append((n.lineno, n.col_offset, nm, n))
    from ..cfg import CFG
    g = CFG(init.node)
    pn = [x for x in src_order if x[2] == 'parse']
    im = [x for x in src_order if x[2] == 'import_model']
    if not pn or not im:
        rep.fail('C16.R5', init.where, 'Solver.__init__ parses the options and then imports the model',
                 got='parse calls=%d import_model calls=%d' % (len(pn), len(im)), construct='init anchors')
    else:
        a, b = g.node_of(pn[0][3]), g.node_of(im[0][3])
        rep.check(a is not None and b is not None and a is not b and g.dominates(a, b), 'C16.R5', init.where,
                  'the option parse dominates import_model (options are refused before the instance is read)',
                  got='parse@%d import_model@%d' % (pn[0][0], im[0][0]), want='parse dominates import_model', construct='parse-before-import')
    solves = [x for x in src_order if x[2] in ('solve', 'run')]
    rep.check(not solves, 'C16.R5', init.where, 'nothing is solved in Solver.__init__', got=[x[2] for x in solves], construct='solve in __init__')

    # ---- R6 consumers + R7 info lines ------------------------------------------------------------------------
    check_info_lines(rep, repo, tier)
    # ---- R9 ----------------------------------------------------------------------------------------------------
    from .c14 import typestate_check
    cfgs = [(False, False, [lpfacts.crit_config(a, 0), lpfacts.crit_config(b)]) for a in ('GENEROUS', 'GREEDY') for b in ('MAXSIZE', 'MINCOST')]
    cfgs += [(False, False, [lpfacts.crit_config('MAXSIZE'), lpfacts.crit_config('LOADSUMBAL'), lpfacts.crit_config('GENEROUS', 1)])]
    typestate_check(rep, repo, 'C16.R9', cfgs)


def check_helper(rep, repo, helper, N, r1='C16.R1', r3='C16.R3', r6='C16.R6'):
    """R1 + R3 + R6 on the ordering helper with a symbolic list of (arguments, criterion) tuples.  Shapes are normalised:
    sentinel 0 or None, compaction by index or by element, position/extras split inline or in a helper (case split on
    isinstance(arguments, list)), count as a counter or as len(<present criteria>)."""
    it = Interp(repo)
    try:
        effs, rv = it.run(helper, {[p_ for p_ in helper.params if p_ != 'self'][0]: S('opts')})
    except Unknown as u:
        rep.inconclusive(r1, helper.where, 'ordering helper is inside the interpreted fragment', got=str(u))
        return
    where = helper.where
    if not (rv[0] == 'tuple' and len(rv[1]) == 2):
        rep.inconclusive(r1, where, 'ordering helper returns (ordered list, count)', got=show(rv)[:200])
        return
    kept, cnt = rv[1]

    def present_forms(b):
        a = I(b, C(0))
        return [NOT(CMP('Eq', a, NONE)), CMP('NotEq', a, NONE), NOT(CMP('Is', a, NONE)), CMP('IsNot', a, NONE)]

    def unwrap(t):
        if t[0] == 'cat':
            parts = [p for p in t[1] if p != ('list', ())]
            if len(parts) == 1:
                return parts[0]
        return t

    # ---- count = number of present criteria ----
    okc = False
    c = cnt
    if c[0] == 'bin' and c[1] == 'Add' and c[2] == C(0) and c[3][0] == 'sum':
        ch, v = c[3][1], c[3][2]
        if len(ch) == 1 and v == C(1) and ch[0][0][3] == S('opts'):
            okc = ch[0][1] in present_forms(ch[0][0])
    elif c[0] == 'call' and c[1] == S('len') and len(c[2]) == 1:
        inner = unwrap(c[2][0])
        if inner[0] == 'comp' and len(inner[1]) == 1 and inner[1][0][0][3] == S('opts'):
            okc = inner[1][0][1] in present_forms(inner[1][0][0])
    if not okc:
        # the guard as a function of the kind of the flag value: absent (None) / a list [position, extras...] / a bare position
        # (argparse contract A5: the elements of an nargs='+' list of type int are integers, never None)
        gcount = None
        bcount = None
        if c[0] == 'bin' and c[1] == 'Add' and c[2] == C(0) and c[3][0] == 'sum' and len(c[3][1]) == 1 and c[3][2] == C(1) and c[3][1][0][0][3] == S('opts'):
            bcount, gcount = c[3][1][0]
        elif c[0] == 'call' and c[1] == S('len') and len(c[2]) == 1:
            inner = unwrap(c[2][0])
            if inner[0] == 'comp' and len(inner[1]) == 1 and inner[1][0][0][3] == S('opts'):
                bcount, gcount = inner[1][0]
        if gcount is not None:
            a_ = I(bcount, C(0))
            verdicts = []
            for case in ('none', 'list', 'scalar'):
                def f(t, case=case):
                    if t[0] == 'cmp' and t[1] in ('Is', 'Eq', 'IsNot', 'NotEq') and t[3] == NONE:
                        pos = t[1] in ('Is', 'Eq')
                        if t[2] == a_:
                            return C((case == 'none') == pos)
                        if t[2] == I(a_, C(0)) and case == 'list':
                            return C(not pos)
                    if t == CALL(S('isinstance'), [a_, S('list')]):
                        return C(case == 'list')
                    return None
                r_ = simp(subst(gcount, f))
                for _ in range(4):
                    r2_ = simp(subst(r_, f))
                    if r2_ == r_:
                        break
                    r_ = r2_
                verdicts.append(r_)
            if all(v_ in (TRUE, FALSE) for v_ in verdicts):
                okc = verdicts == [FALSE, TRUE, TRUE]
            else:
                rep.inconclusive(r3, where, 'the guard of the count can be decided per kind of flag value (absent / list / bare position)', got=[show(v_)[:60] for v_ in verdicts])
                okc = None
    if okc is not None:
        rep.check(okc, r3, where, 'the returned count is the number of criteria whose flag is present (not None)',
                  got=show(cnt)[:200], want='number of (arguments, opt) in opts with arguments is not None', construct='present-count')
    # ---- compaction ----
    comp = unwrap(kept)
    X = sent = None
    if comp[0] == 'comp' and len(comp[1]) == 1:
        b, g = comp[1][0]
        dom = b[3]
        def sentinel_of(g, elem):
            if g[0] == 'not' and g[1][0] == 'cmp' and g[1][1] in ('Eq', 'Is') and g[1][2] == elem:
                return g[1][3]
            if g[0] == 'cmp' and g[1] in ('NotEq', 'IsNot') and g[2] == elem:
                return g[3]
            return None
        if dom[0] == 'call' and dom[1] == S('range') and len(dom[2]) == 1 and dom[2][0][0] == 'call' and dom[2][0][1] == S('len'):
            X0 = dom[2][0][2][0]
            sv = sentinel_of(g, I(X0, b))
            if sv is not None and comp[2] == I(X0, b):
                X, sent = X0, sv
        else:
            sv = sentinel_of(g, b)
            if sv is not None and comp[2] == b:
                X, sent = dom, sv
    if X is None and comp[0] == 'call' and comp[1] == S('filter') and len(comp[2]) == 2 and comp[2][0] == NONE:
        # filter(None, slots): keeps the truthy slots - the non-sentinel ones when the sentinel is falsy (None, 0) and what is
        # stored is a (criterion, extras) tuple, which is always truthy
        arr = comp[2][1]
        base = arr[1] if arr[0] == 'accum' else arr
        dflt = None
        if base[0] == 'bin' and base[1] == 'Mult':
            for lst in (base[2], base[3]):
                if lst[0] == 'list' and len(lst[1]) == 1:
                    dflt = lst[1][0]
        if dflt in (NONE, C(0), C(False)) and arr[0] == 'accum' and all(v_[0] == 'tuple' and len(v_[1]) == 2 for _, _, v_, _ in arr[2]):
            X, sent = arr, dflt
    dict_mode = False
    if X is None and comp[0] == 'comp' and len(comp[1]) == 1 and comp[1][0][1] == TRUE and comp[1][0][0][3][0] == 'call' and comp[1][0][0][3][1] == S('sorted'):
        # alternative schema: a dict keyed by position, read back in sorted key order
        b, g = comp[1][0]
        dom = b[3]
        if dom[0] == 'call' and dom[1] == S('sorted') and len(dom[2]) == 1 and not dom[3]:
            D = dom[2][0]
            if D[0] == 'call' and D[1][0] == 'attr' and D[1][2] == 'keys' and not D[2]:
                D = D[1][1]
            if D[0] == 'accum' and D[1] == ('dict', ()) and comp[2] == I(D, b):
                X, sent, dict_mode = D, NONE, True
    if X is None and comp[0] == 'comp' and len(comp[1]) == 1:
        # a dict keyed by position read back over range(1, HI): every position 1..N must be visited
        b, g = comp[1][0]
        dom = b[3]
        D = comp[2][1] if (comp[2][0] == 'idx' and comp[2][2] == b) else None
        if D is not None and D[0] == 'accum' and D[1] == ('dict', ()) and dom[0] == 'call' and dom[1] == S('range') and len(dom[2]) == 2 and dom[2][0] == C(1):
            hi = dom[2][1]
            full = hi in (C(N + 1), BIN('Add', CALL(S('len'), [S(helper.params[-1])]), C(1)), BIN('Add', C(1), CALL(S('len'), [S(helper.params[-1])])))
            if full:
                X, sent, dict_mode = D, NONE, True
            else:
                rep.fail(r1, where, 'compaction visits every position 1..%d' % N, got='positions are read back over range(1, %s): a criterion whose position lies beyond that is dropped' % show(hi)[:80],
                         want='range(1, len(opts) + 1)', construct='compaction range %s' % show(hi)[:60])
                return
    if X is None and comp[0] == 'comp' and len(comp[1]) == 1:
        # a sparse table keyed by slot index (position - 1), read back over range(HI) keeping the keys present
        b, g = comp[1][0]
        dom = b[3]
        D = comp[2][1] if (comp[2][0] == 'idx' and comp[2][2] == b) else None
        if D is not None and D[0] == 'accum' and D[1] == ('dict', ()) and g == CMP('In', b, D) and dom[0] == 'call' and dom[1] == S('range') and len(dom[2]) == 1:
            hi = dom[2][0]
            if hi in (C(N), CALL(S('len'), [S(helper.params[-1])])):
                X, sent, dict_mode = D, NONE, True
            else:
                rep.fail(r1, where, 'compaction visits every slot 0..%d' % (N - 1), got='slots are read back over range(%s): a criterion whose position lies beyond that is dropped' % show(hi)[:80],
                         want='range(len(opts))', construct='compaction range %s' % show(hi)[:60])
                return
    if X is None:
        # (an unrecognised way of compacting is not by itself a wrong one)
        rep.inconclusive(r1, where, 'the compaction of the slots is in a recognised form ([slot for slot in slots if slot is not the sentinel], filter(None, slots), sorted dict)',
                         got=show(kept)[:240])
        return
    if dict_mode:
        rep.ok(r1, where, 'criteria are stored in a dict keyed by position and read back in sorted key order', got='sorted(dict)')
    else:
        rep.ok(r1, where, 'compaction visits slots ascending and keeps non-sentinel ones', got='sentinel %s' % show(sent))
    if X[0] != 'accum':
        rep.fail(r1, where, 'slots are filled by a scatter over the criteria', got=show(X)[:200], construct='scatter form')
        return
    pre, entries = X[1], X[2]
    if not dict_mode:
        want_pre = [BIN('Mult', CALL(S('len'), [S('opts')]), ('list', (sent,))), BIN('Mult', ('list', (sent,)), CALL(S('len'), [S('opts')]))]
        ok_pre = pre in want_pre
        if not ok_pre and pre[0] == 'comp' and len(pre[1]) == 1 and pre[1][0][1] == TRUE and pre[2] == sent:
            # [sentinel for _ in opts]  /  [sentinel for _ in range(len(opts))]
            dom_ = pre[1][0][0][3]
            ok_pre = dom_ in (S('opts'), CALL(S('range'), [CALL(S('len'), [S('opts')])]))
        rep.check(ok_pre, r1, where, 'one sentinel slot per criterion', got=show(pre), want='len(opts) * [%s]' % show(sent), construct='slot array size')
        rep.check(sent in (C(0), NONE), r1, where, 'the sentinel cannot be confused with a stored (criterion, extras) tuple', got=show(sent), construct='sentinel value')
    # ---- scatter entries, case split on the kind of the flag value ----
    cases = {'list': [], 'scalar': []}
    for op, idx, val, ch in entries:
        if len(ch) != 1 or ch[0][0][3] != S('opts'):
            rep.inconclusive(r1, where, 'scatter ranges over the criteria', got=[show(b[3]) for b, _ in ch])
            return
        b, g = ch[0]
        args_ = I(b, C(0))
        isl = CALL(S('isinstance'), [args_, S('list')])
        def kind_facts(case, a_=args_):
            # what is known about the flag value in each case (A5: the elements of an nargs='+' list of ints are integers)
            def f(t):
                if t[0] == 'cmp' and t[1] in ('Is', 'Eq', 'IsNot', 'NotEq') and t[3] == NONE:
                    pos_ = t[1] in ('Is', 'Eq')
                    if t[2] == a_:
                        return C((case == 'none') == pos_)
                    if t[2] == I(a_, C(0)) and case == 'list':
                        return C(not pos_)
                if t == CALL(S('isinstance'), [a_, S('list')]):
                    return C(case == 'list')
                return None
            return f
        def under(t, case):
            f = kind_facts(case)
            r_ = simp(subst(t, f))
            for _ in range(4):
                r2_ = simp(subst(r_, f))
                if r2_ == r_:
                    break
                r_ = r2_
            return r_
        g_none = under(g, 'none')
        for case, const in (('list', TRUE), ('scalar', FALSE)):
            g2 = under(g, case)
            if g2 == FALSE:
                continue
            # the guard holds for every present value of this kind and for no absent one: that IS `arguments is not None`
            if g2 == TRUE and g_none == FALSE:
                g2 = present_forms(b)[0]
            cases[case].append((op, under(idx, case), under(val, case), g2, b))
    for case in ('list', 'scalar'):
        es = cases[case]
        if len(es) != 1:
            rep.fail(r1, where, 'exactly one store handles a %s flag value' % case, got='%d stores' % len(es), construct='scatter stores for %s values: %d' % (case, len(es)))
            continue
        op, idx, val, g2, b = es[0]
        args_, opt = I(b, C(0)), I(b, C(1))
        pos = simp(I(args_, C(0))) if case == 'list' else args_
        # range(n)[k] is k for the (range-checked) positions
        def unrange(t):
            if t[0] == 'idx' and t[1][0] == 'call' and t[1][1] == S('range') and len(t[1][2]) == 1:
                return t[2]
            return None
        idx = simp(subst(idx, unrange))
        okidx = idx == BIN('Sub', pos, C(1)) or (dict_mode and idx == pos)
        rep.check(op == 'setidx' and okidx, r1, where,
                  'a %s criterion is stored at slot position - 1' % ('list-valued' if case == 'list' else 'scalar'), got='%s[%s]' % (op, show(idx).replace(show(b), 'it')),
                  want='setidx[%s - 1]' % show(pos).replace(show(b), 'it'), construct='scatter index %s (%s)' % (show(idx).replace(show(b), 'it'), case))
        rep.check(g2 in present_forms(b), r1, where, 'the scatter covers exactly the present criteria', got=show(g2).replace(show(b), 'it'), want='arguments is not None',
                  construct='scatter guard %s' % show(g2).replace(show(b), 'it'))
        want = ('tuple', (opt, ('slice', args_, C(1), NONE))) if case == 'list' else ('tuple', (opt, NONE))
        rep.check(val == want, r6, where, ('list-valued flag keeps (criterion, arguments[1:])' if case == 'list' else 'scalar flag gives (criterion, None)'),
                  got=show(val).replace(show(b), 'it'), want=show(want).replace(show(b), 'it'), construct='extras of %s flag: %s' % (case, show(val).replace(show(b), 'it')))


def check_parse_keeps_pairs(rep, repo, rule):
    """R6 (parser side, after the ordering): the (criterion, extras) pairs are handed over as built - nothing in parse() appends
    to, removes from or overwrites the extras of a pair (a "default cut-off" filled in here changes what a criterion without
    arguments means)"""
    pf = parser_facts(repo)
    helper = repo.method('Options_parser', '_get_ordered_optimisations')
    parse_where = repo.method('Options_parser', 'parse').where
    changed = []
    for e, ctx in iter_effects(pf.effs):
        if e.kind == 'append' and e.target[0] in ('idx', 'bvar') and any(c.kind == 'call' and c.target is helper for c, _ in ctx) is False:
            base = e.target
            while base[0] == 'idx':
                base = base[1]
            if base[0] == 'bvar':
                changed.append((e, '%s.%s(%s)' % (show(e.target)[:40], e.op, show(e.value)[:40])))
        if e.kind in ('store', 'augstore') and e.target[0] == 'idx' and e.target[1][0] in ('bvar', 'idx') and not any(c.kind == 'call' and c.target is helper for c, _ in ctx):
            changed.append((e, '%s = %s' % (show(e.target)[:40], show(e.value)[:40])))
    rep.check(not changed, rule, parse_where, 'parse() hands the ordered (criterion, extras) pairs over as the ordering helper built them', got=[c_[1] for c_ in changed][:3] or 'no in-place change',
              want='no append / store into a pair or its extras', construct='extras modified in parse(): %s' % (changed[0][1] if changed else ''), loc=changed[0][0].loc if changed else None)


def check_extras_not_consumed(rep, repo, rule='C16.R6'):
    """R6 (history): the extras stay with their criterion for every later solve - nothing on the solve / getter path pops,
    clears or overwrites the parsed option containers (mutation summaries of C18.R3)"""
    from ..effects import Effects
    from .c18 import check_options_readonly, GETTERS
    E = Effects(repo)
    solve = repo.method('Solver', 'solve')
    getters = [repo.method('Solver', g) for g in GETTERS]
    check_options_readonly(rep, repo, E, solve, getters, len(E.analyse(solve)), rule)


def check_extras_isolation(rep, repo, tier, rule='C16.R6'):
    """R6 (consumer side): a criterion given no optional arguments must not see those of an earlier criterion.  Ordered
    pairs (X with distinctly named extras, Y with none) are specialised; nothing in Y's iteration may mention X's extras."""
    listy = [n for n, sp in spec.CRITERIA.items() if sp['nextras'] > 0]
    pairs = [(x, y) for x in listy for y in listy if x != y]
    if tier == 'quick':
        pairs = pairs[::3]
    where = repo.method('LP_Solver', 'run_optimisations').where
    bad = []
    for x, y in pairs:
        ex = tuple(S('first%d' % i) for i in range(spec.CRITERIA[x]['nextras']))
        try:
            r = lpfacts.get_run(repo, False, False, [(x, ex), (y, ())])
        except AnalysisError as u:
            rep.inconclusive(rule, where, 'ordered pair [%s, %s] is inside the interpreted fragment' % (x, y), got=str(u)[:120])
            return
        for ev in r.events:
            if not ev.iters:
                continue
            v = ev.iters[-1].value
            member = v[1][0][2] if (v[0] in ('tuple', 'list') and v[1] and v[1][0][0] == 'attr') else None
            if member != y:
                continue
            def mentions(t):
                # (the solver object itself carries the whole option list as constructor arguments: not a use)
                if not isinstance(t, tuple) or not t:
                    return False
                if isinstance(t[0], str):
                    if t[0] == 'obj':
                        return False
                    if t[0] == 'sym' and t[1].startswith('first'):
                        return True
                    return any(mentions(z) for z in t[1:] if isinstance(z, tuple))
                return any(mentions(z) for z in t if isinstance(z, tuple))
            for k_, t in ev.eff.__dict__.items():
                if isinstance(t, tuple) and t and isinstance(t[0], str) and mentions(t):
                    bad.append((x, y, ev))
                    break
    rep.count('extras_isolation_pairs', len(pairs))
    if bad:
        x, y, ev = bad[0]
        rep.fail(rule, ev.where, 'a criterion without optional arguments uses its documented defaults, not the arguments of an earlier criterion', got='-%s <a> <b> ... -%s <position only>: %s of %s mentions the arguments of %s' % (
                 spec.CRITERIA[x]['dest'], spec.CRITERIA[y]['dest'], ev.kind, y, x), want='extras stay with their own criterion', construct='extras of %s leak into %s' % (x, y), loc=ev.loc)
    else:
        rep.ok(rule, where, 'in %d ordered pairs (criterion with extras, criterion without) the second never sees the first one\'s extras' % len(pairs), got='no leak')


def filtered_extras(t, syms):
    """Places where an optional argument is TRUTH-TESTED before it is used, so that a legal falsy value (0) is replaced by
    something else:  `a or d` with d != 0,  `a and y`,  `not a`,  `y if a else z` with y[a:=0] != z[a:=0].  -> [text]"""
    from ..terms import simp, subst
    subst_term = lambda t_, m: subst(t_, lambda x: m.get(x))
    out = []

    def isarg(x):
        return x in syms or (x[0] == 'call' and x[1] in (S('int'), S('bool')) and len(x[2]) == 1 and x[2][0] in syms)

    def walk(t):
        if not isinstance(t, tuple) or not t:
            return
        if isinstance(t[0], str):
            if t[0] == 'obj':
                return
            if t[0] == 'bool':
                ops = t[2]
                for i, x in enumerate(ops[:-1]):
                    if isarg(x):
                        if t[1] == 'or' and i == len(ops) - 2 and ops[-1] == C(0):
                            continue                      # a or 0  is  a  on the integers
                        out.append(show(t))
            elif t[0] == 'not' and isarg(t[1]):
                out.append(show(t))
            elif t[0] == 'ite' and isarg(t[1]):
                a = t[1] if t[1] in syms else t[1][2][0]
                try:
                    same = simp(subst_term(t[2], {a: C(0)})) == simp(subst_term(t[3], {a: C(0)}))
                except Exception:
                    same = False
                if not same:
                    out.append(show(t))
            for z in t[1:]:
                walk(z)
        else:
            for z in t:
                walk(z)
    walk(t)
    return out


def check_extras_unfiltered(rep, repo, tier, rule='C16.R6'):
    """R6 (consumer side, values): every optional argument reaches its criterion as given - also 0, a legal multiplier and the
    cut-off that leaves nothing to optimise.  A truth test on the argument (`extras and extras[0] or default`) swaps 0 for the
    default."""
    where = repo.method('LP_Solver', 'run_optimisations').where
    n_cfg = 0
    for name, sp in spec.CRITERIA.items():
        for arity in range(1, sp['nextras'] + 1):
            try:
                r = lpfacts.get_run(repo, False, False, [lpfacts.crit_config(name, arity)])
            except AnalysisError as u:
                rep.inconclusive(rule, where, '[%s/%d extras] is inside the interpreted fragment' % (name, arity), got=str(u)[:120])
                return
            n_cfg += 1
            syms = {S('arg%d' % i) for i in range(arity)}
            for ev in r.events:
                conds = [c.cond for c, br in (ev.sym_ifs or ())]
                for k_, t in list(ev.eff.__dict__.items()) + [('if', c) for c in conds]:
                    if not (isinstance(t, tuple) and t and isinstance(t[0], str)):
                        continue
                    bad = filtered_extras(t, syms)
                    if k_ == 'if' and (t in syms or (t[0] == 'not' and t[1] in syms)):
                        bad.append('if ' + show(t))
                    if bad:
                        rep.fail(rule, ev.where, 'optional arguments reach %s as given (0 included)' % name, got='[%s/%d extras] %s: %s' % (name, arity, ev.kind, bad[0][:120]),
                                 want='the argument itself, not a truth test of it', construct='extras of %s truth-tested' % name, loc=ev.loc)
                        return
    rep.count('extras_unfiltered_configs', n_cfg)
    rep.ok(rule, where, 'in %d (criterion, number of optional arguments) specialisations no optional argument is truth-tested on its way into an info line, a loop bound or a constraint' % n_cfg,
           got='no truth test')


def check_info_lines(rep, repo, tier):
    """R7 on single-criterion specialisations + R6 consumer order."""
    for name in spec.CRITERIA:
        r = lpfacts.get_run(repo, False, False, [lpfacts.crit_config(name)])
        solves = r.of('solve')
        if not solves:
            rep.fail('C16.R7', repo.method('LP_Solver', 'run_optimisations').where, 'criterion %s performs a solve' % name, got='no solve', construct='%s no solve' % name)
            continue
        first = solves[0]
        lines = [e for e in r.of('augstore') if e.eff.target[0] == 'attr' and e.eff.target[2] == 'info_string' and e.iters]
        lines_before = [e for e in lines if e.order < first.order]
        txt = lambda e: show(e.eff.value)
        ok = any('- optimisation:' in txt(e) for e in lines_before)
        rep.check(ok, 'C16.R7', first.where, "criterion %s records its '- optimisation:' line before its first solve" % name,
                  got=[txt(e)[:60] for e in lines], want="info_string += '- optimisation: ...' before solve", construct='%s info line' % name, loc=first.loc)
        uncond = [e for e in lines_before if '- optimisation:' in txt(e) and not e.sym_ifs and not e.loops]
        if ok:
            rep.check(bool(uncond), 'C16.R7', first.where, "the '- optimisation:' line of %s is appended exactly once, unconditionally" % name,
                      got=[txt(e)[:60] for e in lines_before], construct='%s info line conditional' % name)
    # the result of run() ends up in model.info_string
    r = lpfacts.get_run(repo, False, False, [lpfacts.crit_config('MAXSIZE')])
    st = [e for e in r.of('store') if e.eff.target[0] == 'attr' and e.eff.target[2] == 'info_string' and lpfacts.lp.is_model(e.eff.target[1])]
    rep.check(bool(st), 'C16.R7', repo.method('LP_Solver', 'run').where, 'the accumulated lines are handed to the model for printing',
              got=[show(e.eff.target) for e in st], want='model.info_string = self.info_string', construct='info_string handoff')
    # ... and the model prints them: every result text contains model.info_string
    gr = repo.method('Model', 'get_results')
    try:
        _, text = Interp(repo).run(gr, {p_: S(p_) for p_ in gr.params[1:]}, selfterm=lp.MODEL)
    except Unknown as u:
        rep.inconclusive('C16.R7', gr.where, 'get_results is inside the interpreted fragment', got=str(u))
        return
    alts = []
    def split(t):
        if t[0] == 'ite':
            split(t[2]); split(t[3])
        elif t != NONE:
            alts.append(t)
    split(text)
    texts = [t for t in alts if contains(t, lambda y: y[0] == 'const' and isinstance(y[1], str) and len(y[1]) > 3)]
    info = A(lp.MODEL, 'info_string')
    missing = [t for t in texts if not contains(t, lambda y: y == info)]
    rep.check(bool(texts) and not missing, 'C16.R7', gr.where, "every result text prints the '- optimisation:' lines recorded for the run (model.info_string)",
              got='%d of %d texts do not contain model.info_string' % (len(missing), len(texts)), want='results += self.info_string', construct='info lines not printed')
