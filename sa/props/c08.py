"""C08 -- generated files are well-formed instances of the requested type and parameters (DESIGN.md section 5, C08)."""
import ast

from ..terms import *
from ..absint import Interp, iter_effects
from ..cfg import CFG
from ..loader import AnalysisError
from .. import doc
from ..writerfacts import writer_facts, dests, hole_terms, ARGS
from ..genfacts import even_spread

RULES = {
    'C08.R1': 'no stale loop-carried use: a value assigned per iteration in one loop is never read in a disjoint later loop (reaching definitions over every generator function)',
    'C08.R2': 'line templates of both create_instance methods equal the documented grammar (header, "i: prefs", "j: lq: uq: [lecturer|prefs]", "k: llq: t: luq: prefs", blank line, parameter block)',
    'C08.R3': 'one file per i in range(numberinstances), named str(i) + ".txt" in the output directory, opened for writing, holding the instance text',
    'C08.R4': 'even spread: quotas, targets and projects per lecturer are floor(total/n) plus one for the first total % n agents (differ by at most one, larger first, sum to the total), as integers',
    'C08.R5': 'sampling contract: list length uniform in [pmin, pmax]; tie indicators drawn from [0, 1] with p = [1 - t, t]',
    'C08.R6': 'argument flow: every column of every line is fed by the option the grammar names (t1 first side, t2 second side, n2/n3 counts, each quota total in its own column)',
    'C08.R7': 'second-side lists are built and written only when two-sided lists were requested',
}

GRAMMAR = {
    # cls -> list of (section name, count option, [field roles after the agent id]); 'PREFS1'/'PREFS2' = preference tokens
    'Generator_ha_sm_hr': [('first side', 'n1', ['PREFS1']), ('second side', 'n2', [{'lowerquotas', 'n2'}, {'upperquotas', 'n2'}, 'PREFS2'])],
    'Generator_spa': [('students', 'n1', ['PREFS1']), ('projects', 'n2', [{'lowerquotas', 'n2'}, {'upperquotas', 'n2'}, {'n2', 'n3'}]),
                      ('lecturers', 'n3', [{'lecturerlowerquotas', 'n3'}, {'lecturertargets', 'n3'}, {'lecturerupperquotas', 'n3'}, 'PREFS2'])],
}
HEADER = {'Generator_ha_sm_hr': ['n1', 'n2'], 'Generator_spa': ['n1', 'n2', 'n3']}


def run(rep, repo, tier):
    for k, v in RULES.items():
        rep.rule(k, v)
    rep.assumptions += ['A4 numpy/random contracts (randint excludes high; choice(replace=False) gives distinct members)', 'statistical claims beyond the API contract are not decided']
    check_stale_uses(rep, repo)
    from ..defined import check_defined
    check_defined(rep, repo, 'C08.R1', [repo.method(c_, 'generate_instances', required=False) for c_ in GRAMMAR] + [repo.method('Generator', '__init__', required=False)], 'instance generation')
    for cls in GRAMMAR:
        for twopl in (True, False):
            try:
                wf = writer_facts(repo, cls, twopl)
            except AnalysisError as e:
                rep.inconclusive('C08.R2', repo.method(cls, 'create_instance').where, 'the instance writer is inside the interpreted fragment', got=str(e))
                continue
            if twopl:
                check_grammar(rep, wf, cls)
                check_call_arguments(rep, wf, cls)
                check_files(rep, wf, cls)
                check_spread(rep, wf, cls)
            check_gating(rep, wf, cls, twopl)
    check_sampling(rep, repo)
    check_type_dispatch(rep, repo)


# positional parameters of the shared building blocks (their order is the public interface the tests call) -> the option
# that has to arrive there; None = not an option (a list built before)
CALL_ARGS = {
    'create_pref_lists_original': ['n1', 'n2', 'minpreflistlength', 'maxpreflistlength', 'ties1', 'skew'],
    'create_pref_lists_from_other_lists': [None, {'Generator_ha_sm_hr': 'n2', 'Generator_spa': 'n3'}, 'ties2'],
    'create_project_lecturers': ['n2', 'n3'],
    'create_student_lec_lists': [None, None, 'n3'],
}


def check_call_arguments(rep, wf, cls):
    """R6: the options reach the list-drawing functions in the positions their parameters have (number of lists, population,
    length bounds, tie probability, skew; number of lecturers)"""
    w = wf.gi.where
    seen = set()
    for e, _ in iter_effects(wf.effs):
        if e.kind not in ('call', 'callo') or getattr(e.target, 'name', None) not in CALL_ARGS or e.target.name in seen:
            continue
        seen.add(e.target.name)
        want = CALL_ARGS[e.target.name]
        if len(e.args) < len(want):
            rep.inconclusive('C08.R6', w, '%s is called with positional arguments' % e.target.name, got='%d positional arguments' % len(e.args))
            continue
        for k, d in enumerate(want):
            d = d.get(cls) if isinstance(d, dict) else d
            if d is None:
                continue
            rep.check(e.args[k] == A(ARGS, d), 'C08.R6', w, 'argument %d of %s is the option %s' % (k + 1, e.target.name, d), got=show(e.args[k])[:60], want='args.' + d,
                      construct='%s argument %d of %s fed by %s' % (cls, k + 1, e.target.name, show(e.args[k])[:40]), loc=e.loc)
    rep.count('building_block_calls_checked', len(seen))      # a block that is inlined or replaced is judged through the lines it feeds (R2, R6 roles)


WRITER_OF_TYPE = {'ha': 'Generator_ha_sm_hr', 'sm': 'Generator_ha_sm_hr', 'hr': 'Generator_ha_sm_hr', 'spa': 'Generator_spa'}


def check_type_dispatch(rep, repo):
    """R3: for each of the four problem types Generator.__init__ hands the parsed arguments to generate_instances of the
    writer of that type, exactly once (conditions evaluated with args.matchingproblem := the type's name)"""
    f = repo.method('Generator', '__init__', required=False)
    if f is None:
        rep.inconclusive('C08.R3', '-', 'Generator.__init__ is the entry point of a run', got='not found')
        return
    PARSED = S('parsed_args')
    for T, cls in sorted(WRITER_OF_TYPE.items()):
        if not _dispatch_for(rep, repo, f, T, cls, PARSED):
            return


def _dispatch_for(rep, repo, f, T, cls, PARSED):
    """one problem type: __init__ interpreted with parse() handing back an object whose matchingproblem is T"""
    it = Interp(repo)
    it.opaque = lambda g: g.name in ('generate_instances', 'parse')
    it.opaque_ret = {'parse': PARSED}
    it.heap[A(PARSED, 'matchingproblem')] = C(T)
    try:
        effs, _ = it.run(f, {p_: S(p_) for p_ in f.params if p_ != 'self'})
    except Unknown as u:
        rep.inconclusive('C08.R3', f.where, 'Generator.__init__ is inside the interpreted fragment', got=str(u))
        return False
    parsed = [e for e, _ in iter_effects(effs) if e.kind in ('call', 'callo') and getattr(e.target, 'name', '') == 'parse']
    calls = [(e, ctx) for e, ctx in iter_effects(effs) if e.kind in ('call', 'callo') and getattr(e.target, 'name', '') == 'generate_instances']
    unresolved = []
    seen = set()
    for e, _ in iter_effects(effs):
        for v_ in e.__dict__.values():
            if isinstance(v_, tuple) and v_ and isinstance(v_[0], str):
                unresolved += [show(t)[:80] for t in walk_unique(v_, seen) if t[0] == 'call' and t[1][0] == 'attr' and t[1][2] == 'generate_instances'
                               and not any(getattr(c_, 'ret', None) == t for c_, _ in calls)]
    if unresolved:
        rep.inconclusive('C08.R3', f.where, 'the receiver of every generate_instances call is resolved to one writer class (type %s)' % T, got=unresolved[:2])
        return False
    if True:
        def ev(t):
            if t[0] == 'attr' and t[2] == 'matchingproblem':
                return C(T)
            return simp(t)
        run_ = []
        unknown = []
        for e, ctx in calls:
            live = True
            for c_, br in ctx:
                if c_.kind == 'if':
                    v = subst(c_.cond, ev)
                    if v not in (TRUE, FALSE):
                        unknown.append(show(v)[:80])
                    elif (v == TRUE) != br:
                        live = False
                elif c_.kind in ('for', 'while'):
                    unknown.append('inside a loop')
            if live:
                run_.append(e)
        if unknown:
            rep.inconclusive('C08.R3', f.where, 'the dispatch on the problem type is decided by args.matchingproblem alone (type %s)' % T, got=unknown[:2])
            return True
        ok = len(run_) == 1 and getattr(run_[0].target, 'cls', None) == cls
        rep.check(ok, 'C08.R3', f.where, 'problem type %s: the instances are written by %s.generate_instances, called once' % (T, cls),
                  got=[getattr(e.target, 'cls', '?') for e in run_] or 'no writer is called', want=cls, construct='dispatch of problem type %s' % T)
        if ok and parsed:
            arg_ok = len(run_[0].args) == 1 and run_[0].args[0] in (parsed[0].ret, A(S('self'), 'args'), PARSED)
            rep.check(arg_ok, 'C08.R3', f.where, 'problem type %s: the writer receives the parsed arguments' % T, got=[show(a)[:60] for a in run_[0].args], want='the value returned by parse()',
                      construct='writer arguments for %s' % T)
    return True


# ---- R1 -------------------------------------------------------------------------------------------------------
def check_stale_uses(rep, repo):
    n_funcs = n_uses = 0
    for f in repo.all_funcs():
        if not f.relpath.startswith(repo.rel('generator')):
            continue
        n_funcs += 1
        g = CFG(f.node)
        if not g.loops:
            continue
        IN = g.reaching()
        loops_of = {}
        for (la, head, body) in g.loops:
            for i in body:
                loops_of.setdefault(i, []).append((la, head, body))
        for u in g.nodes:
            for nm in g.uses_of(u):
                n_uses += 1
                for d_id in IN.get(u.id, {}).get(nm.id, ()):
                    if d_id < 0:
                        continue
                    d = g.nodes[d_id]
                    if g.defs_of(d).get(nm.id) != 'assign':
                        continue
                    ld = [L for L in loops_of.get(d.id, []) if u.id not in L[2] and u.id != L[1].id]
                    lu = [L for L in loops_of.get(u.id, []) if d.id not in L[2]]
                    if not ld or not lu:
                        continue
                    L1 = ld[-1]
                    # per-iteration value: depends on L1's loop variable or on a local assigned inside L1
                    per_iter = set()
                    if isinstance(L1[0], ast.For):
                        per_iter |= {x.id for x in ast.walk(L1[0].target) if isinstance(x, ast.Name)}
                    for i in L1[2]:
                        per_iter |= set(g.defs_of(g.nodes[i]))
                    rhs = d.ast.value if isinstance(d.ast, (ast.Assign, ast.AnnAssign)) else None
                    used = {x.id for x in ast.walk(rhs) if isinstance(x, ast.Name)} if rhs is not None else set()
                    if used & per_iter:
                        rep.fail('C08.R1', f.where, 'values computed per iteration of one loop are not read in a later, disjoint loop',
                                 got='%s assigned at line %d (loop at line %d) is read at line %d (loop at line %d) on a path where it was not reassigned' % (
                                     nm.id, d.line, L1[0].lineno, nm.lineno, lu[-1][0].lineno),
                                 want='re-initialise %s in each iteration of the second loop' % nm.id,
                                 construct='stale %s in %s' % (nm.id, f.qualname), loc='%s:%d' % (f.relpath, nm.lineno))
    rep.count('functions_scanned', n_funcs)
    rep.count('uses_scanned', n_uses)
    if not any(o.rule == 'C08.R1' and o.status != 'discharged' for o in rep.obs):
        rep.ok('C08.R1', 'matchingproblems/generator', 'no stale loop-carried use in %d functions (%d uses examined)' % (n_funcs, n_uses))


# ---- R2 / R6 ------------------------------------------------------------------------------------------------------
def pref_role(wf, item):
    """which preference structure a list-valued field draws from: dests of the actual argument of the list parameter"""
    terms = []
    def collect(x):
        if isinstance(x, doc.Hole):
            terms.append(x.term)
        elif isinstance(x, doc.Rep):
            for b, g in x.chain:
                terms.append(b[3])
            for y in x.items:
                collect(y)
        elif isinstance(x, doc.Alt):
            terms.append(x.cond)
            for y in x.a + x.b:
                collect(y)
    collect(item)
    params = set()
    for t in terms:
        params |= wf.params_in(t)
    # only list-valued parameters (the preference / tie structures), not the scalar counts
    return {p_ for p_ in params if not (wf.actual[p_][0] == 'attr' and wf.actual[p_][1] == ARGS)}


def check_grammar(rep, wf, cls):
    w = wf.ci.where
    for p in wf.problems:
        rep.fail('C08.R2', w, 'the text is a sequence of newline-terminated lines', got=p, construct='line structure: ' + p[:80])
    lines = [l for l in wf.lines]
    # header
    if not lines:
        rep.fail('C08.R2', w, 'the instance text has lines', got='empty', construct='no lines')
        return
    hdr = lines[0]
    hf = doc.fields_of(hdr, drop='')
    got = []
    for f_ in hf:
        ts = hole_terms(f_)
        got.append(sorted(wf.role(ts[0][1]) or []) if len(ts) == 1 and ts[0][0] == 'hole' else ['?'])
    want = [[x] for x in HEADER[cls]]
    rep.check(not hdr.chain and got == want, 'C08.R2', w, 'header line = agent counts %s separated by single spaces' % ' '.join(HEADER[cls]), got=got, want=want,
              construct='%s header %s' % (cls, got))
    seps = [p.text for p in hdr.parts if isinstance(p, doc.Lit)]
    rep.check(all(s_ == ' ' for s_ in seps), 'C08.R2', w, 'header fields are separated by one space', got=seps, construct='%s header separators %r' % (cls, seps))
    body = lines[1:]
    sections = GRAMMAR[cls]
    if len(body) < len(sections) + 2:
        rep.fail('C08.R2', w, 'the file has %d agent sections, a blank line and the parameter block' % len(sections), got='%d line templates' % len(lines), construct='%s section count' % cls)
        return
    for (name, cnt, roles), line in zip(sections, body):
        # repetition: once per agent of the section, in order
        ok_rep = len(line.chain) == 1 and line.chain[0][1] == TRUE and line.chain[0][0][3][0] == 'call' and line.chain[0][0][3][1] == S('range') \
            and len(line.chain[0][0][3][2]) == 1 and wf.role(line.chain[0][0][3][2][0]) == frozenset([cnt])
        if ok_rep:
            # ... exactly that many: the bound is the count itself (a parameter, or the length of a list), not count - 1 / count + 1
            bound = line.chain[0][0][3][2][0]
            ok_rep = bound[0] in ('sym', 'attr') or (bound[0] == 'call' and bound[1] == S('len'))
        rep.check(ok_rep, 'C08.R2', w, '%s: one line per agent, %s of them' % (name, cnt), got=[show(b[3]) for b, g in line.chain], want='for x in range(%s)' % cnt,
                  construct='%s %s repetition' % (cls, name))
        if not line.chain:
            continue
        b = line.chain[0][0]
        fields = doc.fields_of(line)
        if len(fields) != len(roles) + 1:
            rep.fail('C08.R2', w, '%s line has %d fields' % (name, len(roles) + 1), got='%d fields' % len(fields), want='id + %s' % roles, construct='%s %s field count %d' % (cls, name, len(fields)))
            continue
        # separators ': ' between fields
        lits = [p.text for p in line.parts if isinstance(p, doc.Lit)]
        rep.check(all(x == ': ' for x in lits), 'C08.R2', w, "%s fields are separated by ': '" % name, got=lits, want="': '", construct='%s %s separators %r' % (cls, name, lits))
        # id = x + 1
        f0 = hole_terms(fields[0])
        ok_id = len(f0) == 1 and f0[0][0] == 'hole' and f0[0][1] in (BIN('Add', b, C(1)), BIN('Add', C(1), b))
        rep.check(ok_id, 'C08.R2', w, '%s lines are numbered 1, 2, ...' % name, got=[show(x[1])[:40] if x[0] == 'hole' else x[0] for x in f0], want='x + 1', construct='%s %s numbering' % (cls, name))
        for k, (role, fld) in enumerate(zip(roles, fields[1:]), 1):
            ts = hole_terms(fld)
            if isinstance(role, str):
                # preference tokens: a space-joined list drawn from the side's list/tie arrays, indexed by this line's agent
                params = set()
                for x in fld:
                    if not isinstance(x, str):
                        params |= pref_role(wf, x)
                origin = set()
                for p_ in params:
                    origin |= set(dests(wf.actual[p_]))
                want_t = 'ties1' if role == 'PREFS1' else 'ties2'
                other_t = 'ties2' if role == 'PREFS1' else 'ties1'
                if not any(o.startswith('ties') for o in origin):
                    # the tie vector could not be traced back to an option at all (an opaque library call in between): not judged
                    rep.inconclusive('C08.R6', w, 'the tie indicators of the %s lists are traced back to a tie option' % name, got=sorted(origin) or 'no option reaches the tie argument')
                else:
                    rep.check(want_t in origin and other_t not in origin, 'C08.R6', w, '%s preference lists are tied with probability %s' % (name, want_t), got=sorted(origin), want=want_t,
                              construct='%s %s tie source %s' % (cls, name, sorted(o for o in origin if o.startswith('ties'))))
                rep.check(k == len(roles), 'C08.R2', w, 'the preference list is the last field of a %s line' % name, got='field %d of %d' % (k, len(roles)), construct='%s %s list position' % (cls, name))
                from ..writerfacts import list_alt_problems
                for prob in list_alt_problems(fld):
                    rep.fail('C08.R2', w, '%s line: the preference tokens are written exactly when the side has preference lists' % name, got=prob, want='tokens iff the lists exist',
                             construct='%s %s list written under the inverted condition' % (cls, name))
                def seps(items):
                    out_ = []
                    for x in items:
                        if isinstance(x, (doc.Rep, doc.Hole)) and getattr(x, 'sep', None) is not None:
                            out_.append(x.sep)
                        elif isinstance(x, doc.Alt):
                            out_ += seps(x.a) + seps(x.b)
                    return out_
                sp = seps([x for x in fld if not isinstance(x, str)])
                joined = bool(sp) and all(s_ == ' ' for s_ in sp)
                rep.check(joined, 'C08.R2', w, 'preference tokens are separated by single spaces', got='separators %s' % sorted(set(repr(s_) for s_ in sp)) if sp else [type(x).__name__ for x in fld],
                          want="' '.join(tokens)", construct='%s %s token separator' % (cls, name))
                continue
            if len(ts) != 1 or ts[0][0] != 'hole':
                rep.fail('C08.R2', w, '%s field %d is a single value' % (name, k), got=[x[0] for x in ts], construct='%s %s field %d fused' % (cls, name, k))
                continue
            t = ts[0][1]
            r = wf.role(t)
            idx_ok = t[0] == 'idx' and t[2] == b
            rep.check(r == frozenset(role), 'C08.R6', w, '%s field %d carries %s' % (name, k, sorted(role)), got=sorted(r) if r is not None else None, want=sorted(role),
                      construct='%s %s field %d fed by %s' % (cls, name, k, sorted(r) if r is not None else None))
            rep.check(idx_ok, 'C08.R2', w, "%s field %d is this agent's own entry" % (name, k), got=show(t)[:50], want='array[x]', construct='%s %s field %d index' % (cls, name, k))
    tail = body[len(sections):]
    ok_tail = len(tail) == 2 and not tail[0].parts and len(tail[1].parts) == 1 and isinstance(tail[1].parts[0], doc.Hole) and wf.param_of(tail[1].parts[0].term) is not None
    rep.check(ok_tail, 'C08.R2', w, 'a blank line and then the parameter block close the file', got=[repr(l.parts)[:60] for l in tail], want='blank, info', construct='%s trailer' % cls)


# ---- R3 ---------------------------------------------------------------------------------------------------------------
def check_files(rep, wf, cls):
    w = wf.gi.where
    fors = [c for c, _ in wf.callctx if c.kind == 'for']
    N_ = A(ARGS, 'numberinstances')
    ok_loop = len(fors) == 1 and fors[0].binder[3] in (CALL(S('range'), [N_]), CALL(S('range'), [C(0), N_]), CALL(S('range'), [C(0), N_, C(1)]))
    rep.check(ok_loop, 'C08.R3', w, 'one instance is created per i in range(numberinstances)', got=[show(c.binder[3]) for c in fors], want='range(args.numberinstances)', construct='%s instance loop' % cls)
    opens = []
    writes = []
    seen = set()
    seen_o, seen_w = set(), set()
    for e, ctx in iter_effects(wf.effs):
        for k_, v_ in e.__dict__.items():
            if isinstance(v_, tuple) and v_ and isinstance(v_[0], str):
                for t in walk_unique(v_, seen):
                    if t[0] == 'call' and t[1] == S('open') and id(t) not in seen_o:
                        seen_o.add(id(t))
                        if not any(o[0] == t for o in opens):
                            opens.append((t, e, ctx))
                    if t[0] == 'call' and t[1][0] == 'attr' and t[1][2] == 'write' and id(t) not in seen_w:
                        seen_w.add(id(t))
                        if not any(o[0] is t for o in writes):
                            writes.append((t, e, ctx))
    if len(opens) != 1:
        rep.fail('C08.R3', w, 'each instance is written to one file', got='%d open() calls' % len(opens), construct='%s open count %d' % (cls, len(opens)))
        return
    t, e, ctx = opens[0]
    mode = t[2][1] if len(t[2]) > 1 else dict(t[3]).get('mode', C('r'))
    rep.check(mode == C('w'), 'C08.R3', w, 'the file is opened for writing (truncating)', got=show(mode), want="'w'", construct='%s open mode %s' % (cls, show(mode)), loc=e.loc)
    path = t[2][0]
    i = fors[0].binder if fors else None
    ok_path = False
    if path[0] == 'call' and show(path[1]) == 'os.path.join' and len(path[2]) == 2:
        d0, n0 = path[2]
        items = doc.doc_of(n0)
        ok_path = d0 == A(ARGS, 'outputdirectory') and len(items) == 2 and isinstance(items[0], doc.Hole) and items[0].term == i and isinstance(items[1], doc.Lit) and items[1].text == '.txt'
    else:
        items = doc.doc_of(path)
        ok_path = (len(items) == 4 and isinstance(items[0], doc.Hole) and items[0].term == A(ARGS, 'outputdirectory') and isinstance(items[1], doc.Lit) and items[1].text == '/'
                   and isinstance(items[2], doc.Hole) and items[2].term == i and isinstance(items[3], doc.Lit) and items[3].text == '.txt')
    rep.check(ok_path, 'C08.R3', w, 'file i is <outputdirectory>/<i>.txt', got=show(path)[:100], want="outputdirectory + '/' + str(i) + '.txt'", construct='%s file name %s' % (cls, show(path)[:60]), loc=e.loc)
    in_loop = any(c is fors[0] for c, _ in ctx) if fors else False
    rep.check(in_loop, 'C08.R3', w, 'the file is opened once per instance', got='inside the instance loop: %s' % in_loop, construct='%s open outside loop' % cls)
    check_directory(rep, wf, cls, e)
    ok_w = any(len(wt[2]) == 1 and wt[2][0] == wf.call.ret for wt, _, _ in writes)
    rep.check(ok_w, 'C08.R3', w, 'exactly the text returned by create_instance is written', got=[show(wt[2][0])[:40] for wt, _, _ in writes], construct='%s written text' % cls)


def check_directory(rep, wf, cls, open_eff):
    """the output directory may not exist yet (it is an argument): it is created, when absent, in front of the first open()"""
    w = wf.gi.where
    D = A(ARGS, 'outputdirectory')
    order = [e for e, _ in iter_effects(wf.effs)]
    made = []
    for e, ctx in iter_effects(wf.effs):
        t = getattr(e, 'term', None) if e.kind == 'expr' else None
        if not (isinstance(t, tuple) and t[0] == 'call'):
            continue
        plain = show(t[1]) in ('os.makedirs', 'os.mkdir', 'makedirs', 'mkdir') and t[2] and t[2][0] == D
        viapath = t[1][0] == 'attr' and t[1][2] == 'mkdir' and t[1][1][0] == 'call' and show(t[1][1][1]).split('.')[-1] == 'Path' and list(t[1][1][2]) == [D]
        if not (plain or viapath):
            continue
        conds = [(c_.cond, br) for c_, br in ctx if c_.kind == 'if']
        exist_ok = dict(t[3]).get('exist_ok') == TRUE if len(t) > 3 else False
        def absent_test(c_, br):
            neg = not br
            while c_[0] == 'not':
                c_, neg = c_[1], not neg
            return neg and c_[0] == 'call' and show(c_[1]) in ('os.path.exists', 'os.path.isdir', 'exists', 'isdir') and list(c_[2]) == [D]
        guarded = len(conds) == 1 and absent_test(*conds[0])
        deep = show(t[1]) in ('os.makedirs', 'makedirs') or (viapath and len(t) > 3 and dict(t[3]).get('parents') == TRUE)
        made.append((e, guarded or (not conds and exist_ok), conds, exist_ok, deep, show(t)[:70]))
    if not made:
        # anything else that is handed the directory (pathlib, a helper, a try block) may create it: not judged
        other = []
        seen = set()
        SKIP = ('open', 'exists', 'isdir', 'join', 'str', 'format')
        def outside(t):
            if t == D:
                return True
            if t[0] == 'call' and show(t[1]).split('.')[-1] in SKIP:
                return False
            def kids(x):
                for y in (x[1:] if x and isinstance(x[0], str) else x):
                    if isinstance(y, tuple):
                        if y and isinstance(y[0], str):
                            yield y
                        else:
                            yield from kids(y)
            return any(outside(c_) for c_ in kids(t))
        for e, _ in iter_effects(wf.effs):
            for v_ in e.__dict__.values():
                if isinstance(v_, tuple) and v_ and isinstance(v_[0], str):
                    for t in walk_unique(v_, seen):
                        if t[0] == 'call' and outside(t):
                            other.append(show(t)[:80])
        if other:
            rep.inconclusive('C08.R3', w, 'the call that creates the output directory is a recognised one (os.makedirs / os.mkdir)', got=other[:3])
            return
        rep.fail('C08.R3', w, 'the output directory is created when it does not exist yet, before the first file is opened', got='no os.makedirs(args.outputdirectory) on the path to open()',
                 want='if not os.path.exists(d): os.makedirs(d)', construct='%s output directory never created' % cls, loc=open_eff.loc)
        return
    e, ok, conds, exist_ok, deep, how = made[0]
    before = order.index(e) < order.index(open_eff) if (e in order and open_eff in order) else True
    rep.check(deep, 'C08.R3', w, 'the output directory is created together with any missing parent directories (-o a/b/c is an accepted run)', got=how,
              want='os.makedirs(d)   or   Path(d).mkdir(parents=True, ...)', construct='%s output directory created without its parents' % cls, loc=e.loc)
    rep.check(ok and before, 'C08.R3', w, 'the output directory is created exactly when it is absent, before the first file is opened',
              got='makedirs under %s%s%s' % ([('' if br else 'not ') + show(c_)[:60] for c_, br in conds] or 'no condition', ', exist_ok' if exist_ok else '', '' if before else ', after open()'),
              want='if not os.path.exists(d): os.makedirs(d)   or   os.makedirs(d, exist_ok=True)', construct='%s output directory creation' % cls, loc=e.loc)


# ---- R4 ----------------------------------------------------------------------------------------------------------------
def check_spread(rep, wf, cls):
    w = wf.gi.where
    table = {'Generator_ha_sm_hr': [('lower_quotas', 'lowerquotas', 'n2'), ('upper_quotas', 'upperquotas', 'n2')],
             'Generator_spa': [('lower_quotas', 'lowerquotas', 'n2'), ('upper_quotas', 'upperquotas', 'n2'), ('lec_lower_quotas', 'lecturerlowerquotas', 'n3'),
                               ('lec_targets', 'lecturertargets', 'n3'), ('lec_upper_quotas', 'lecturerupperquotas', 'n3')]}[cls]
    # parameters are found by the role of the holes, not by name: use the grammar's role sets
    by_role = {}
    for p_, t in wf.actual.items():
        by_role.setdefault(dests(t), []).append((p_, t))
    # declared types of the totals (argparse) and their defaults (set_defaults)
    from ..optparse_facts import argparse_table
    tab = {a.dest: a for a in argparse_table(wf.repo.method('Instance_options_parser', 'parse').node, wf.repo)}
    float_defaults = set()
    sd = wf.repo.method('Instance_options_parser', 'set_defaults')
    for n in ast.walk(sd.node):
        if isinstance(n, ast.Assign) and isinstance(n.targets[0], ast.Attribute) and isinstance(n.value, ast.Constant) and isinstance(n.value.value, float):
            float_defaults.add(n.targets[0].attr)
    for pname, total, cnt in table:
        cands = by_role.get(frozenset([total, cnt]), [])
        if len(cands) != 1:
            rep.fail('C08.R4', w, 'the %s total is spread over the %s agents and passed to the writer' % (total, cnt), got='%d arguments derived from (%s, %s)' % (len(cands), total, cnt),
                     construct='%s spread of %s missing' % (cls, total))
            continue
        p_, t = cands[0]
        r = even_spread(t, A(ARGS, total), A(ARGS, cnt))
        if not r['ok']:
            if r.get('unknown'):
                rep.inconclusive('C08.R4', w, '%s is spread by a recognised even-spread idiom' % total, got=r['why'])
            else:
                rep.fail('C08.R4', w, '%s is spread as evenly as possible over %s agents, larger shares first' % (total, cnt), got=r['why'], want='floor(total/n) + (1 if i < total %% n)',
                         construct='%s spread of %s: %s' % (cls, total, r['why'][:80]))
            continue
        integral = r['coerced'] or (tab.get(total) is not None and tab[total].type == 'int' and total not in float_defaults)
        rep.check(integral, 'C08.R4', w, 'the shares of %s are written as integers' % total,
                  got='quotient %s; option type %s; default set to a float: %s' % (show(r['q']), tab.get(total).type if total in tab else None, total in float_defaults),
                  want='int(...) coercion, or an integer-only total', construct='%s shares of %s may be floats' % (cls, total))
    if cls == 'Generator_spa':
        cands = by_role.get(frozenset(['n2', 'n3']), [])
        lists = [c for c in cands if c[1][0] in ('comp', 'cat', 'accum')]
        if len(lists) != 1 and cands:
            # something derived from (n2, n3) does reach the writer, in a form the block recogniser does not read
            rep.inconclusive('C08.R4', w, 'projects per lecturer follow a recognised block assignment', got=[show(c[1])[:100] for c in cands][:2])
            return
        if len(lists) != 1:
            rep.fail('C08.R4', w, 'projects are assigned to lecturers and passed to the writer', got='%d candidates' % len(lists), construct='project-lecturer table missing')
            return
        p_, t = lists[0]
        from ..genfacts import blocks_of
        r = blocks_of(t, A(ARGS, 'n2'), A(ARGS, 'n3'))
        if r.get('unknown'):
            rep.inconclusive('C08.R4', w, 'projects per lecturer follow a recognised block assignment', got=r['why'])
            return
        rep.check(r['ok'], 'C08.R4', w, 'lecturer k (ascending) supervises floor(n2/n3) projects, plus one for the first n2 % n3 lecturers; projects are numbered consecutively',
                  got=r['why'] or show(t)[:160], want='[k+1 for k in range(n3) for _ in range(share[k])]', construct='project-lecturer assignment: ' + (r['why'] or '')[:100])


# ---- R7 ------------------------------------------------------------------------------------------------------------------
def check_gating(rep, wf, cls, twopl):
    w = wf.gi.where
    sections = GRAMMAR[cls]
    line = wf.lines[len(sections)] if len(wf.lines) > len(sections) else None       # last agent section
    if line is None or not line.chain:
        return
    fields = doc.fields_of(line)
    params = set()
    for x in fields[-1] if fields else []:
        if not isinstance(x, str):
            params |= pref_role(wf, x)
    if not params:
        rep.inconclusive('C08.R7', w, 'the second-side preference field is identified', got=[repr(f_)[:40] for f_ in fields])
        return
    for p_ in sorted(params):
        t = wf.actual[p_]
        if not twopl:
            rep.check(t == ('list', ()), 'C08.R7', w, 'without -twopl no second-side list is built (%s)' % p_, got=show(t)[:80], want='[]', construct='%s %s built without twopl' % (cls, p_))
        else:
            rep.check(t != ('list', ()) and 'ties2' in dests(t) | {'ties2'} and bool(dests(t)), 'C08.R7', w, 'with -twopl the second-side lists are built (%s)' % p_, got=show(t)[:60],
                      construct='%s %s empty with twopl' % (cls, p_))
    # in the writer: an empty second-side structure yields an empty field
    alts = [x for x in (fields[-1] if fields else []) if isinstance(x, doc.Alt)]
    if twopl:
        ok = False
        for a in alts:
            empty_branch = (not a.a) or (not a.b) or any(isinstance(y, doc.Hole) and y.term in (('list', ()), C('')) for y in a.a + a.b)
            cond_params = {y[1] for y in walk(a.cond) if y[0] == 'sym' and y[1] in wf.actual}
            if empty_branch and cond_params & params:
                ok = True
        rep.check(ok, 'C08.R7', wf.ci.where, 'the writer emits no second-side tokens when it is given no second-side lists', got=[repr(a)[:80] for a in alts],
                  want="'' when the list structure is empty", construct='%s second-side field not conditional' % cls)


# ---- R5 -------------------------------------------------------------------------------------------------------------------
def check_sampling(rep, repo):
    g = repo.function('create_pref_lists_original')
    try:
        effs, rv = Interp(repo).run(g, {})
    except Unknown as u:
        rep.inconclusive('C08.R5', g.where, 'the list-drawing function is inside the interpreted fragment', got=str(u))
        return
    pmin, pmax = S(g.params[2]), S(g.params[3])
    # one list per first-side agent: the result has exactly n1 entries, every one of them drawn
    n1_ = S(g.params[0])
    lists_t = rv[1][0] if (rv[0] == 'tuple' and rv[1]) else rv
    def range_is_n1(d):
        return d[0] == 'call' and d[1] == S('range') and ((len(d[2]) == 1 and d[2][0] == n1_) or (len(d[2]) == 2 and d[2][0] == C(0) and d[2][1] == n1_))
    counts = []
    if lists_t[0] == 'accum':
        pre = lists_t[1]
        if pre[0] == 'comp' and len(pre[1]) == 1:
            counts.append(pre[1][0][0][3])
        elif pre[0] == 'bin' and pre[1] == 'Mult':
            counts.append(CALL(S('range'), [pre[3] if pre[2][0] == 'list' else pre[2]]))
        for op_, idx_, val_, ch_ in lists_t[2]:
            if op_ in ('setidx', 'append') and len(ch_) == 1:
                counts.append(ch_[0][0][3])
    elif lists_t[0] == 'comp' and len(lists_t[1]) == 1:
        counts.append(lists_t[1][0][0][3])
    if counts and any(d[0] in ('while', 'top') or not (d[0] == 'call' and d[1] == S('range')) for d in counts if not range_is_n1(d)):
        # the lists are produced by a loop whose trip count is not a range(...) term: not judged (a range with another bound is)
        rep.inconclusive('C08.R5', g.where, 'the loop that draws the first-side lists has a trip count in closed form', got=[show(d)[:40] for d in counts])
    elif counts:
        rep.check(all(range_is_n1(d) for d in counts), 'C08.R5', g.where, 'one preference list is drawn for each of the n1 first-side agents', got=[show(d)[:40] for d in counts],
                  want='range(%s)' % g.params[0], construct='number of first-side lists ' + ', '.join(show(d)[:30] for d in counts))
    draws = []
    lengths = []
    seen = set()
    for e, ctx in iter_effects(effs):
        for k_, v_ in e.__dict__.items():
            if isinstance(v_, tuple) and v_ and isinstance(v_[0], str):
                for t in walk_unique(v_, seen):
                    if t[0] == 'call' and show(t[1]) in ('np.random.randint', 'random.randint', 'np.random.random_integers'):
                        lengths.append((t, e))
                    if t[0] == 'call' and show(t[1]).endswith('random.choice') and 'replace' in dict(t[3]):
                        draws.append((t, e))
    rep.check(len(lengths) >= 1, 'C08.R5', g.where, 'the list length is drawn at random', got='%d randint calls' % len(lengths), construct='no length draw')
    for t, e in lengths:
        fn = show(t[1])
        from ..genfacts import bind_api
        ba = bind_api(t) or {}
        lo_, hi_ = (ba.get('low'), ba.get('high')) if fn != 'random.randint' else (ba.get('a'), ba.get('b'))
        if fn == 'np.random.randint':
            ok = lo_ == pmin and hi_ in (BIN('Add', pmax, C(1)), BIN('Add', C(1), pmax))
            want = 'np.random.randint(pmin, pmax + 1)  (high is exclusive)'
        else:
            ok = lo_ == pmin and hi_ == pmax
            want = '%s(pmin, pmax)  (inclusive)' % fn
        rep.check(ok, 'C08.R5', g.where, 'every length in [pmin, pmax] can occur, nothing outside it', got=show(t), want=want, construct='length draw ' + show(t), loc=e.loc)
    for t, e in draws:
        from ..genfacts import bind_api
        size = (bind_api(t) or {}).get('size') or (t[2][1] if len(t[2]) > 1 else dict(t[3]).get('size'))
        ok = any(size == l[0] for l in lengths)
        rep.check(ok, 'C08.R5', g.where, 'the list has the drawn length', got=show(size)[:60] if size else None, want='the randint value', construct='list size argument', loc=e.loc)
    ti = repo.function('create_ties_indicators')
    try:
        effs2, rv2 = Interp(repo).run(ti, {})
    except Unknown as u:
        rep.inconclusive('C08.R5', ti.where, 'the tie-indicator function is inside the interpreted fragment', got=str(u))
        return
    tp = S(ti.params[1])
    found = []
    for x in walk(rv2):
        if x[0] == 'call' and show(x[1]).endswith('random.choice'):
            found.append(x)
    rep.check(bool(found), 'C08.R5', ti.where, 'tie indicators are drawn with np.random.choice', got=show(rv2)[:80], construct='no tie draw')
    for x in found[:1]:
        pop = x[2][0] if x[2] else None
        p = dict(x[3]).get('p')
        pop_l = pop[2][0] if (pop is not None and pop[0] == 'call' and show(pop[1]) in ('np.array', 'np.asarray', 'list')) else pop
        if pop_l in (C(2), CALL(S('range'), [C(2)]), CALL(A(S('np'), 'arange'), [C(2)])):
            pop_l = ('list', (C(0), C(1)))              # np.random.choice(2, ...) draws from arange(2)
        ok = pop_l == ('list', (C(0), C(1))) and p == ('list', (BIN('Sub', C(1), tp), tp))
        alt = pop_l == ('list', (C(1), C(0))) and p == ('list', (tp, BIN('Sub', C(1), tp)))
        rep.check(ok or alt, 'C08.R5', ti.where, "indicator 1 ('tied with the next') has probability t, 0 has 1 - t (so t=0 gives no ties and t=1 ties everything)",
                  got='choices %s with p=%s' % (show(pop_l), show(p)), want='[0, 1] with p=[1 - t, t]', construct='tie draw %s / %s' % (show(pop_l), show(p)))
