"""C05 -- with -stab the LP searches exactly the stable matchings (DESIGN.md section 5, C05)."""
import itertools

from ..terms import *
from ..poly import *
from .. import lp, spec, lpfacts

RULES = {
    'C05.R0': 'oracle sanity: the reference alpha/beta/gamma encoding is equivalent to the SPA-STL blocking-pair definition (exhaustive over the predicate abstraction)',
    'C05.R1': 'the alpha/beta/gamma constraint families equal the reference SPA-STL encoding (linear normal form, incl. the sorted-prefix scan)',
    'C05.R2': 'alpha, beta Binary; stability families and variables present iff -stab, unconditionally, before any solve',
    'C05.R3': '-stab requires two-sided lists (so rank_lecturer exists on every pair the encoding reads)',
}


def run(rep, repo, tier):
    for k, v in RULES.items():
        rep.rule(k, v)
    from ..defined import check_defined
    check_defined(rep, repo, 'C05.R2', [repo.method('Solver', '__init__'), repo.method('Solver', 'solve'), repo.method('Solver', 'get_results_short'), repo.method('Solver', 'get_results_long')], 'solver path')
    rep.assumptions += ['A1 well-formed instance', 'A3 PuLP semantics', 'A6 CBC exact',
                        'rows of `pairs` are sorted by student rank, ranks dense from 1 (discharged by C10.R1/C13)',
                        'q in lecturer_lists[k] <=> l(q)=k (discharged by C01.R4)']
    oracle_sanity(rep)
    crit_sets = [[], [lpfacts.crit_config('MAXSIZE')]]
    if tier == 'thorough':
        crit_sets += [[lpfacts.crit_config(n)] for n in spec.CRITERIA if n != 'MAXSIZE']
    for pc in (False, True):
        for crit in crit_sets:
            for stab in (True, False):
                r = lpfacts.get_run(repo, pc, stab, crit)
                check_run(rep, r, pc, stab, crit)
                lpfacts.check_domains_fixed(rep, r, 'C05.R2', '[%s]' % cfgname(pc, stab, crit))
                rep.count('specialisations')
    check_requires_twopl(rep, repo)


def cfgname(pc, stab, crit):
    return 'pc=%s stab=%s criteria=[%s]' % (pc, stab, ','.join(c[0] for c in crit))


def check_run(rep, r, pc, stab, crit):
    cfg = cfgname(pc, stab, crit)
    where_run = r.repo.method('LP_Solver', 'run').where
    first = r.first_solve()
    if first is None:
        rep.fail('C05.R2', where_run, 'a solve is reached [%s]' % cfg, got='no solve', construct='no-solve')
        return
    pre = [e for e in r.of('addc') if e.order < first]
    refs = {k: lpfacts.ref_family(v) for k, v in spec.STABILITY.items()}
    uses_ab = lambda fam: any(m.var and (m.var.startswith('a(') or m.var.startswith('b(')) for m in fam.monos)
    if not stab:
        extra = [e for e in r.of('addc') if e.fam is not None and uses_ab(e.fam)]
        rep.check(not extra, 'C05.R2', extra[0].where if extra else where_run, 'no stability constraint is added without -stab [%s]' % cfg,
                  got=extra[0].fam.text() if extra else 'none', want='none', construct='stability without -stab', loc=extra[0].loc if extra else None)
        return
    for k, ref in refs.items():
        hits = [e for e in pre if e.fam is not None and e.fam.core() == ref.core()]
        uncond = [e for e in hits if not e.sym_ifs]
        if uncond:
            rep.ok('C05.R1', uncond[0].where, 'stability family %s equals the reference [%s]' % (k, cfg), got=uncond[0].fam.core(), want=ref.core(), loc=uncond[0].loc)
            continue
        if hits:
            e = hits[0]
            rep.fail('C05.R2', e.where, 'stability family %s is added for every pair on every path [%s]' % (k, cfg),
                     got='only under: ' + ' and '.join(show(c.cond if br else NOT(c.cond)) for c, br in e.sym_ifs), want='unconditional',
                     construct='conditional %s' % k, loc=e.loc)
            continue
        late = [e for e in r.of('addc') if e.fam is not None and e.fam.core() == ref.core()]
        if late:
            rep.fail('C05.R2', late[0].where, 'stability family %s precedes every solve [%s]' % (k, cfg), got='added after a solve',
                     construct='late %s' % k, loc=late[0].loc)
            continue
        sig = lambda fam: tuple(sorted({m.var for m in fam.monos if m.var and not m.sumvar}))
        near = [e for e in pre if e.fam is not None and e.fam.quants == ref.quants and sig(e.fam) == sig(ref)]
        if near:
            e = near[0]
            rep.fail('C05.R1', e.where, 'stability family %s equals the reference [%s]' % (k, cfg), got=e.fam.core(), want=ref.core(),
                     construct='%s deviates: %s' % (k, e.fam.core()), loc=e.loc)
            continue
        bad = [e for e in pre if e.fam is None]
        if bad:
            lpfacts.report_unnormalised(rep, 'C05.R1', bad[0], 'stability family %s not found and a constraint could not be normalised [%s]' % (k, cfg), '[%s]' % cfg)
        else:
            rep.fail('C05.R1', where_run, 'stability family %s is present [%s]' % (k, cfg), got='absent', want=ref.core(), construct='%s absent' % k)
    # no additional constraint over alpha/beta
    known = {ref.core() for ref in refs.values()}
    for e in r.of('addc'):
        if e.fam is not None and uses_ab(e.fam) and e.fam.core() not in known:
            # deviating families were already reported above as 'deviates'; anything else constrains alpha/beta further
            if not any(o.status == 'refuted' and o.loc == e.loc for o in rep.obs):
                rep.inconclusive('C05.R1', e.where, 'every constraint over alpha/beta is one of the three reference families [%s]' % cfg, got=e.fam.core(), loc=e.loc)
    # R2: alpha/beta binary
    roles = {}
    for d in r.declvars():
        ev = d['ev']
        for e2 in r.events:
            if e2.kind == 'store' and e2.eff.value == ev.eff.var and e2.eff.target[0] == 'attr':
                roles[r.canon.attr_letter.get(e2.eff.target[2])] = (d, ev)
    for role in ('a', 'b'):
        if role not in roles:
            rep.fail('C05.R2', where_run, 'variable %s is declared for every pair under -stab [%s]' % (role, cfg), got='not declared', construct='%s undeclared' % role)
            continue
        d, ev = roles[role]
        ok = d.get('cat') == 'Binary' or (d.get('cat') == 'Integer' and d.get('low') == {} and d.get('up') == pconst(1))
        rep.check(ok, 'C05.R2', ev.where, 'variable %s is 0/1 [%s]' % (role, cfg), got='cat=%s' % d.get('cat'), want='Binary', construct='domain of %s' % role, loc=ev.loc)
        from ..shapes import all_pairs_chain
        ap = all_pairs_chain(tuple((c.binder, TRUE) for c in ev.loops if c.kind == 'for'))
        rep.check(not ev.sym_ifs and ap is not None, 'C05.R2', ev.where, '%s is declared for every pair [%s]' % (role, cfg),
                  got=[show(c.cond) for c, _ in ev.sym_ifs], want='unconditional, per pair', construct='%s conditional' % role, loc=ev.loc)


def check_requires_twopl(rep, repo):
    """C05.R3 = C16.R4: `stab and not twopl` -> parser.error, reached from parse()."""
    from .c16 import stability_requires_twopl
    stability_requires_twopl(rep, repo, 'C05.R3')


# ---- R0: reference encoding <=> definition, over the predicate abstraction ------------------------------
def oracle_sanity(rep):
    """Atoms per acceptable pair (s,p), l = lecturer of p, under a valid matching M:
         W      s unassigned or strictly prefers p            (gamma: 1 - sum_{rank<=} x = [W], by ST)
         PF     p full          LF  l full
         INL    s in M(l)       INP s in M(p)                (INP => INL; W => not INP)
         NWP    nobody in M(p) \\ {s} is worse than s        NWL nobody in M(l) \\ {s} worse than s   (NWL => NWP since M(p) subset of M(l))
       Reference: A := count{(s',q) in M: l(q)=l, s'!=s, rl<=rl(s)} >= d_l  <=> LF and not INL and NWL      (as |M(l)| <= d_l)
                  B := count{(s',p) in M: s'!=s, rl<=rl(s)} >= c_p          <=> PF and not INP and NWP
                  feasible extension exists  <=>  (W => A or B)
       Definition: blocks <=> W and (3a or 3b or 3c) with 3a = not PF and not LF; 3b = not PF and LF and (INL or not NWL); 3c = PF and not NWP.
       (PF => LF is NOT assumed; a full project under an undersubscribed lecturer is possible.)"""
    n = 0
    bad = []
    for W, PF, LF, INL, INP, NWP, NWL in itertools.product([False, True], repeat=7):
        if INP and not INL: continue
        if W and INP: continue
        if NWL and not NWP: continue
        n += 1
        A = LF and not INL and NWL
        B = PF and not INP and NWP
        ok_ref = (not W) or A or B
        blocks = W and ((not PF and not LF) or (not PF and LF and (INL or not NWL)) or (PF and not NWP))
        if ok_ref != (not blocks):
            bad.append((W, PF, LF, INL, INP, NWP, NWL))
    rep.count('oracle_valuations', n)
    rep.check(not bad, 'C05.R0', 'sa/spec.py::STABILITY', 'reference encoding admits x iff no pair blocks (all %d feasible valuations)' % n,
              got=bad[:3], want='no disagreement', construct='oracle mismatch')
